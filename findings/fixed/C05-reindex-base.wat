;; base for the explicit C05 witnesses: every index space has an import and two locals,
;; and code / exports / start / element segment refer to them.
(module
  (type $v (func))
  (import "env" "f" (func $imp))
  (import "env" "g" (global $gi i32))
  (import "env" "m" (memory $mi 1))
  (memory $mmid 5)
  (memory $m1 2)
  (global $g1 (mut i32) (i32.const 11))
  (global $gmid i32 (i32.const 5))
  (global $g2 (mut i32) (i32.const 22))
  (table 2 funcref)
  (elem (i32.const 0) func $a $b)
  (func $unused)
  (func $a
    call $imp
    call $b
    global.get $g1
    global.set $g2
    i32.const 0
    i32.load $m1
    drop)
  (func $b
    call $imp
    global.get $gi
    drop
    i32.const 0
    i32.const 1
    i32.store $mi)
  (func $unused2)
  (global $gunused i32 (i32.const 33))
  (memory $munused 3)
  (export "a" (func $a))
  (export "g2" (global $g2))
  (export "m1" (memory $m1))
  (start $b))
