;; four structurally identical function types: a type request that matches them must always
;; resolve to the same one, whatever order a hash map yields its entries in.
(module
  (type (func (param i32)))
  (type (func (param i32)))
  (type (func (param i32)))
  (type (func (param i32)))
  (type (func))
  (func (type 4)))
