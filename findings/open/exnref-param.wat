;; Witness: a function passes a nullable exnref to a function whose parameter was exnref;
;; after the round trip the callee's parameter is (ref exn) but the caller still pushes a nullable value.
(module
  (type (func (param exnref)))
  (type (func))
  (import "env" "f" (func (type 0)))
  (global (mut exnref) (ref.null exn))
  (func (type 1)
    global.get 0
    call 0))
