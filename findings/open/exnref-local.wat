;; Witness: an `exnref` (nullable) local / parameter is re-emitted as the non-nullable `(ref exn)`.
;; The local is read before being set, which is valid for exnref (defaultable) but not for (ref exn).
(module
  (type (func (param exnref)))
  (func (type 0) (param exnref)
    (local exnref)
    local.get 1
    drop))
