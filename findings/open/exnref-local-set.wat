;; Witness: a nullable exnref value is stored into an exnref local; after the round trip the local is (ref exn).
(module
  (type (func))
  (global (mut exnref) (ref.null exn))
  (func (type 0)
    (local exnref)
    global.get 0
    local.set 0))
