;; Witness: semantic-after on a `br` whose target is the function's outermost label.
;; The flagged body is planned "after" the function's final end, which is never emitted.
(module
  (func (param i32)
    local.get 0
    if
      br 1
    end
    nop))
