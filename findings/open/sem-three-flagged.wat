;; semantic-after on a br_table with three entries for the same block: the three flag checks are chained
;; as if/else/else, which is not well-formed.
(module
  (import "host" "probe" (func (param i32)))
  (global (export "tick") (mut i64) (i64.const 0))
  (func (export "f1") (param i32)
    block
      local.get 0
      br_table 0 0 0
    end))
