;; semantic-after on `br 1` (target: the block). Iteration 1 takes the branch (probe fires on arrival,
;; the flag stays 1); iteration 2 skips the branch but falls through the block's end, where the stale
;; flag makes the probe fire again.
(module
  (import "host" "probe" (func (param i32)))
  (global (export "tick") (mut i64) (i64.const 0))
  (func (export "f1") (param i32) (local i32)
    loop
      block
        local.get 1
        i32.eqz
        if
          br 1
        end
      end
      global.get 0
      i64.const 1
      i64.add
      global.set 0
      local.get 1
      i32.const 1
      i32.add
      local.tee 1
      i32.const 2
      i32.lt_u
      br_if 0
    end))
