;; semantic-after on a branch whose target is the function's outermost label:
;; when taken, the probe never fires (its body is planned after the function's final end).
(module
  (import "host" "probe" (func (param i32)))
  (global (export "tick") (mut i64) (i64.const 0))
  (func (export "f1") (param i32)
    local.get 0
    if
      br 1
    end
    nop))
