;; base of the explicit C23 witnesses. Function 1 ($f):
;;   0 block / 1 i32.const 1 / 2 br_if 0 / 3 nop / 4 end (of the block) / 5 end (of the function)
(module
  (import "env" "probe" (func $probe))
  (func $f
    block
      i32.const 1
      br_if 0
      nop
    end))
