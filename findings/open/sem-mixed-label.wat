;; semantic-after on a br_table whose targets are a block AND the function's outermost label.
;; Argument 1 selects the function label: the probe never fires (body planned after the function's final end).
;; Argument 0 selects the block: the probe fires on arrival, but the flag stays set.
(module
  (import "host" "probe" (func (param i32)))
  (global (export "tick") (mut i64) (i64.const 0))
  (func (export "f1") (param i32)
    block
      local.get 0
      br_table 0 1
    end
    global.get 0
    i64.const 1
    i64.add
    global.set 0))
