#![no_main]
//! C03 thorough sub-engine: coverage-guided inputs for both parse entry points under ASan.
//! A panic (libFuzzer turns it into a crash artefact), a sanitizer report, a stack overflow or
//! an out-of-memory abort is a candidate violation; every artefact is replayed through the
//! stable harness (`harness c03replay`) before it counts.
use libfuzzer_sys::fuzz_target;

fuzz_target!(|data: &[u8]| {
    if data.is_empty() {
        return;
    }
    let flag = data[0] & 1 == 1;
    let body = &data[1..];
    if data[0] & 2 == 0 {
        let _ = wirm::Module::parse(body, flag);
    } else {
        let _ = wirm::Component::parse(body, flag);
    }
});
