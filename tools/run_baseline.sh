#!/bin/bash
# usage: run_baseline.sh <worktree-dir>   -- runs the crate's own test suite there and checks the 111 stable tests pass
set -u
D="$1"
cd "$D" || exit 2
unset RUSTFLAGS
export CARGO_NET_OFFLINE=true
LOG=$(mktemp)
run_once() {
cargo nextest run --workspace --no-fail-fast --offline --test-threads 4 -E 'not test(seeded_demo)' >"$LOG" 2>&1
python3 - "$LOG" <<'PY'
import json,re,sys
log=open(sys.argv[1]).read()
passed=set()
for m in re.finditer(r'^\s+PASS \[[^\]]*\]\s+(?:\(\s*\d+/\d+\)\s+)?(\S+)\s+(\S+)\s*$', log, re.M):
    passed.add(m.group(1)+"::"+m.group(2))
base=json.load(open('/root/.vp/BASELINE.json'))['stable_pass']
missing=[t for t in base if t not in passed]
print("baseline tests passing: %d/%d"%(len(base)-len(missing),len(base)))
if missing:
    print("MISSING:"); [print("  ",t) for t in missing[:20]]
    if 'error' in log and 'could not compile' in log: print(log[-3000:])
    sys.exit(1)
PY
}
run_once; rc=$?
if [ $rc -ne 0 ]; then echo "retrying once (round-trip tests can collide on output files)"; run_once; rc=$?; fi
rm -f "$LOG"
exit $rc
