#!/usr/bin/env python3
"""record_fixed.py <commit> <prop> <what...>: takes the replay files kept by revert_probe.sh for
(commit, prop), stores an explicit witness per signature under findings/fixed/ and adds
'fixed' entries to known_findings.json."""
import json,sys,glob,os,re
commit,prop=sys.argv[1:3]; what=' '.join(sys.argv[3:])
k=json.load(open('/verif/known_findings.json'))
n=0
for f in sorted(glob.glob('/verif/out/revert/%s/%s/*.json'%(commit,prop))):
    d=json.load(open(f))
    sig=d['signature']; det=d['detail']
    w=det.get('explicit_witness')
    if not w:
        w={'seed':d['seed'],'idx':d['idx']}
    if any(e['property']==prop and e['signature']==sig and e.get('commit')==commit for e in k['findings']): continue
    slug=re.sub(r'[^A-Za-z0-9]+','-',sig)[:60].strip('-')
    path='findings/fixed/%s-%s-%s.json'%(prop,commit,slug)
    json.dump(w,open('/verif/'+path,'w'))
    k['findings'].append({'property':prop,'signature':sig,'status':'fixed','commit':commit,'what':what,
                          'history':det.get('history'),'witness':{'file':path}})
    n+=1
    if n>=3: break
json.dump(k,open('/verif/known_findings.json','w'),indent=1,ensure_ascii=False)
print("recorded",n,"fixed entries for",prop,commit)
