#!/opt/veriftools/pyvenv/bin/python
import json, jsonschema, sys, glob
jsonschema.validate(json.load(open('/verif/MANIFEST.json')), json.load(open('/root/.vp/MANIFEST.schema.json')))
m=json.load(open('/verif/MANIFEST.json'))
sch=json.load(open('/root/.vp/EVIDENCE.schema.json'))
bad=0
for c in m['checks']:
    try:
        jsonschema.validate(json.load(open('/verif/'+c['evidence_file'])), sch)
    except Exception as e:
        bad+=1; print("EVIDENCE BAD", c['property_id'], str(e)[:200])
print("manifest ok; evidence files bad:", bad)
