#!/bin/bash
# (re)creates the isolated evaluation copy: /tmp/evalrepo (worktree of /repo HEAD) + /tmp/evalverif (copy of /verif)
set -e
if [ -d /tmp/evalrepo ]; then git -C /repo worktree remove --force /tmp/evalrepo; fi
git -C /repo worktree add --detach /tmp/evalrepo HEAD >/dev/null
mkdir -p /tmp/evalverif
rsync -a --delete --exclude out/ --exclude .git/ --exclude fuzz/target/ --exclude seeded/ /verif/ /tmp/evalverif/
sed -i 's#path = "/repo"#path = "/tmp/evalrepo"#' /tmp/evalverif/harness/Cargo.toml
sed -i "s#/verif/out/target#/tmp/evalverif/out/target#" /tmp/evalverif/harness/.cargo/config.toml
mkdir -p /tmp/evalverif/out
echo "eval copy ready"
