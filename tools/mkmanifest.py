#!/usr/bin/env python3
"""Regenerates /verif/MANIFEST.json from the table below (kept in one place so that the
claimed set, techniques and not_applicable list never drift apart)."""
import json, os, subprocess

HERE = os.path.dirname(os.path.dirname(os.path.abspath(__file__)))

# tools/claims.json: id -> {technique, text, note, ref}; everything else is not_applicable
CLAIMS = json.load(open(os.path.join(HERE, "tools", "claims.json")))
CLAIMED = {k: (v["technique"], v["text"], v["note"], v["ref"]) for k, v in CLAIMS["claimed"].items()}
NA_REASONS = CLAIMS.get("not_applicable", {})
PENDING_REASON = "monitor not built yet in this revision (design in DESIGN.md §4); will be claimed once its check runs silent and fires on seeded breaks"

props = [json.loads(l) for l in open(os.path.join(HERE, "properties.jsonl"))]
checks, na = [], []
for p in props:
    pid = p["id"]
    if pid in CLAIMED:
        tech, text, note, ref = CLAIMED[pid]
        checks.append({
            "property_id": pid,
            "quick_cmd": "./check %s --tier quick" % pid,
            "thorough_cmd": "./check %s --tier thorough" % pid,
            "evidence_file": "evidence/%s.json" % pid,
            "replay_cmd_template": "./check %s --replay {path}" % pid,
            "engine": "harness",
            "level_claimed": {"category": "exploration", "text": text, "design_ref": ref},
            "level_note": note,
            "technique": tech,
        })
    else:
        na.append({"property_id": pid, "reason": NA_REASONS.get(pid, PENDING_REASON)})

try:
    hook_commits = subprocess.check_output(["git", "-C", "/repo", "log", "--format=%H", "--grep=^verif hooks"], text=True).split()
except Exception:
    hook_commits = []

manifest = {
 "version": 1,
 "setup_cmd": "./setup.sh",
 "hooks": {
   "guard": "wirm_verif",
   "enable": "RUSTFLAGS=\"--cfg wirm_verif\" (rustc cfg; the harness crate path-depends on /repo and is rebuilt by ./check)",
   "baseline_off_cmd": "./baseline_off.sh",
   "source_commits": hook_commits,
   "add_only": True,
 },
 "engines": [
   {"name": "harness", "path": "harness/", "serves_properties": [c["property_id"] for c in checks],
    "kind_free_text": "Rust crate linking the real library: generators (G), independent wasmparser decoder + symbolic form (D), shadow models (R), reference interpreter (X), process runner with child-process crash monitor (P)"},
 ],
 "checks": checks,
 "not_applicable": na,
 "notes": "Technique family: runtime monitoring. Every check runs the real library on generated/hostile workloads in child processes and lets an oracle observe each execution; verdicts are three-valued (violated / held on what was observed / inconclusive=exit 2). Known findings live in known_findings.json.",
}
json.dump(manifest, open(os.path.join(HERE, "MANIFEST.json"), "w"), indent=1)
print("claimed:", [c["property_id"] for c in checks], "not_applicable:", len(na))
