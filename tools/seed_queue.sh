#!/bin/bash
# usage: seed_queue.sh [--all] "C01 A" "C01 B" ...
# Evaluates seeded changes against the isolated copy (/tmp/evalrepo + /tmp/evalverif, see eval_copy.sh).
# By default each change is run against the check of its own property + C01 + C02 + the checks of its family;
# --all runs every registered check.
export EVAL_REPO=${EVAL_REPO:-/tmp/evalrepo} EVAL_VERIF=${EVAL_VERIF:-/tmp/evalverif}
# --direct: apply each change to /repo itself and run the checks of /verif itself (final confirmation; nothing else may use them meanwhile)
if [ "${1:-}" = "--direct" ]; then unset EVAL_REPO EVAL_VERIF; shift; fi
ALL=0; if [ "${1:-}" = "--all" ]; then ALL=1; shift; fi
# --lean: the check of the change's own property + C01 + C02 only
LEAN=0; if [ "${1:-}" = "--lean" ]; then LEAN=1; shift; fi
family() {
  case "$1" in
    C04|C05) echo "C04 C05";;
    C06|C07|C08|C09|C10|C11|C12|C14|C29|C30) echo "C06 C07 C08 C09 C10 C11 C12 C14 C29 C30";;
    C15|C21|C22) echo "C15 C21 C22";;
    C16|C17|C18|C19|C20) echo "C16 C17 C18 C19 C20 C22";;
    C25|C26) echo "C25 C26";;
    C27|C28) echo "C27 C28";;
    *) echo "$1";;
  esac
}
for item in "$@"; do
  set -- $item
  # second wave: "C06 A" from /tmp/seed2 is stored as C06-C, B as C06-D
  if [ "${SEED_ROOT:-/tmp/seed}" = /tmp/seed2 ]; then export OUT_VARIANT=$(echo $2 | tr AB CD);
  elif [ "${SEED_ROOT:-/tmp/seed}" = /tmp/seed3 ]; then export OUT_VARIANT=$(echo $2 | tr AB EF);
  elif [ "${SEED_ROOT:-/tmp/seed}" = /tmp/seed4 ]; then export OUT_VARIANT=$(echo $2 | tr AB EF);
  elif [ "${SEED_ROOT:-/tmp/seed}" = /tmp/seed5 ]; then export OUT_VARIANT=$(echo $2 | tr AB EF);
  else unset OUT_VARIANT; fi
  echo "=== $1 $2 $(date +%H:%M:%S)"
  if [ $ALL = 1 ]; then /verif/tools/seed_eval.sh $1 $2 2>&1 | tail -3
  else
    if [ $LEAN = 1 ]; then FAM=""; else FAM=$(family $1); fi
    CH=$(echo "$1 C01 C02 $FAM" | tr ' ' '\n' | awk '!s[$0]++' | tr '\n' ' ')
    /verif/tools/seed_eval.sh $1 $2 $CH 2>&1 | tail -3
  fi
done
