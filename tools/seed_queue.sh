#!/bin/bash
# usage: seed_queue.sh "C01 A" "C01 B" ...   (isolated copy)
export EVAL_REPO=/tmp/evalrepo EVAL_VERIF=/tmp/evalverif
for item in "$@"; do
  set -- $item
  echo "=== $1 $2 $(date +%H:%M:%S)"
  /verif/tools/seed_eval.sh $1 $2 2>&1 | tail -3
done
