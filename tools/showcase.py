#!/usr/bin/env python3
# usage: showcase.py <prop> <seed> <idx> [--wat]
import subprocess,sys,json,re
prop,seed,idx=sys.argv[1:4]
t=subprocess.run(['/verif/out/target/verif/harness','case',prop,seed,idx],capture_output=True,text=True).stdout
parts=t.split('violation: ')
print(parts[0].splitlines()[0])
for p in parts[1:]:
    sig,_,rest=p.partition('\n')
    print("== violation:",sig)
    try:
        j=json.loads(rest[:rest.rindex('}')+1])
    except Exception as e:
        print(rest[:1500]); continue
    for k,v in j.items():
        if k in ('explicit_witness','instrumented_wat') and '--all' not in sys.argv: continue
        if k=='base_wat':
            if '--wat' in sys.argv: print(v)
            continue
        print("  %s: %s"%(k,json.dumps(v,ensure_ascii=False)[:1200]))
