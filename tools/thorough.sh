#!/bin/bash
# usage: tools/thorough.sh [ids...] : thorough tier of the given (default: all) checks, sequentially; prints one line per check
cd "$(dirname "$0")/.."
IDS="$*"; [ -z "$IDS" ] && IDS=$(jq -r '.checks[].property_id' MANIFEST.json)
for id in $IDS; do
  s=$(date +%s); ./check $id --tier thorough > out/t_$id.log 2>&1; rc=$?; e=$(date +%s)
  echo "$id rc=$rc t=$((e-s))s $(grep -c '^VIOLATION' out/t_$id.log) viol $(tail -1 out/t_$id.log | cut -c1-160)"
done
git checkout -q -- evidence 2>/dev/null
