#!/bin/bash
# usage: tools/silence.sh <seed>... : every quick check at each seed on the current tree; prints non-silent ones
cd "$(dirname "$0")/.."
for s in "$@"; do
  for id in $(jq -r '.checks[].property_id' MANIFEST.json); do
    VERIF_SEED=$s ./check $id --tier quick > out/s_${s}_$id.log 2>&1; rc=$?
    if [ $rc -ne 0 ] || grep -q '^VIOLATION' out/s_${s}_$id.log; then echo "seed $s $id rc=$rc $(grep -A1 '^VIOLATION' out/s_${s}_$id.log | grep signature | head -3 | tr '\n' ' ')"; fi
  done
  echo "seed $s done $(date +%H:%M)"
done
git checkout -q -- evidence 2>/dev/null
