#!/bin/bash
# usage: tools/seed_eval.sh <Cxx> <A|B> [checks...]
# Confirms a sub-agent's seeded change (compiles, baseline 111/111, demo fails with / passes without) in the
# scratch worktree /tmp/seed/<Cxx>, then applies it to /repo, runs the given checks (default: all), undoes it,
# and stores patch + demo + meta + results under /verif/seeded/<Cxx>-<v>/.
set -u
ID="$1"; V="$2"; shift 2
# EVAL_REPO / EVAL_VERIF: run against an isolated copy (scratch worktree of /repo + copy of /verif whose harness
# path-depends on it) instead of /repo and /verif themselves; used for triage while /verif is being edited.
REPO="${EVAL_REPO:-/repo}"
VERIF="${EVAL_VERIF:-/verif}"
# SEED_ROOT: where the sub-agents' worktrees are (/tmp/seed = first wave, /tmp/seed2 = second wave);
# OUT_VARIANT: name under /verif/seeded (second wave: A -> C, B -> D)
W=${SEED_ROOT:-/tmp/seed}/$ID
S=$W/seeded/$V
OV=${OUT_VARIANT:-$V}
OUT=/verif/seeded/$ID-$OV
# the sub-agent's scratch worktree is gone (removed when done): re-evaluate from the kept copy
if [ ! -f "$S/patch.diff" ] && [ -f "$OUT/patch.diff" ]; then
  S=$(mktemp -d); cp "$OUT/patch.diff" "$OUT/demo.rs" "$S/"; cp "$OUT/agent_meta.json" "$S/meta.json" 2>/dev/null
fi
[ -f "$S/patch.diff" ] || { echo "no $S/patch.diff"; exit 2; }
mkdir -p "$OUT"
export CARGO_NET_OFFLINE=true
# confirmation happens in a scratch worktree at the CURRENT head of /repo (the sub-agent's own worktree may be older)
C=/tmp/seedconfirm
if [ ! -d "$C" ]; then git -C /repo worktree add --detach "$C" HEAD >/dev/null 2>&1; fi
cd "$C" || exit 2
git checkout -q -- . 2>/dev/null
if [ "$(git rev-parse HEAD)" != "$(git -C /repo rev-parse HEAD)" ]; then git checkout -q --detach "$(git -C /repo rev-parse HEAD)"; fi
rm -f tests/seeded_demo_eval.rs
cp "$S/demo.rs" tests/seeded_demo_eval.rs
run_demo() { cargo test --offline --test seeded_demo_eval >"$OUT/demo_$1.log" 2>&1; echo $?; }
CLEAN_RC=$(run_demo clean)
if ! git apply "$S/patch.diff"; then echo "patch does not apply"; echo '{"confirmed":false,"why":"patch does not apply to the current head"}' > "$OUT/results.json"; rm -f tests/seeded_demo_eval.rs; exit 3; fi
if ! cargo build --offline >"$OUT/build.log" 2>&1; then echo "does not compile"; git checkout -q -- src; rm -f tests/seeded_demo_eval.rs; echo '{"confirmed":false,"why":"does not compile"}' > "$OUT/results.json"; exit 3; fi
BUG_RC=$(run_demo bug)
BASE=$(/verif/tools/run_baseline.sh "$C" 2>&1 | grep "baseline tests passing" | tail -1)
git checkout -q -- src
rm -f tests/seeded_demo_eval.rs
echo "demo clean rc=$CLEAN_RC, with change rc=$BUG_RC, $BASE"
CONF=false
if [ "$CLEAN_RC" = "0" ] && [ "$BUG_RC" != "0" ] && echo "$BASE" | grep -q "111/111"; then CONF=true; fi
cp "$S/patch.diff" "$S/demo.rs" "$OUT/"
cp "$S/meta.json" "$OUT/agent_meta.json" 2>/dev/null
if [ "$CONF" != "true" ]; then
  echo "{\"confirmed\":false,\"demo_clean_rc\":$CLEAN_RC,\"demo_bug_rc\":$BUG_RC,\"baseline\":\"$BASE\"}" > "$OUT/results.json"
  echo "NOT CONFIRMED"; exit 4
fi
# ---- run the checks against it
cd "$REPO" || exit 2
if ! git diff --quiet; then echo "/repo working tree not clean"; exit 2; fi
if ! git apply "$S/patch.diff"; then echo "patch does not apply to /repo"; exit 3; fi
CHECKS="$*"
[ -z "$CHECKS" ] && CHECKS=$(jq -r '.checks[].property_id' "$VERIF/MANIFEST.json")
FIRED=""; ERR=""
mkdir -p "$OUT/logs"
for P in $CHECKS; do
  rm -f "$VERIF"/out/replays/$P-*.json
  (cd "$VERIF" && ./check "$P" > "$OUT/logs/$P.log" 2>&1); rc=$?
  if grep -q '^VIOLATION' "$OUT/logs/$P.log"; then
    FIRED="$FIRED $P"
    grep -A1 '^VIOLATION' "$OUT/logs/$P.log" | grep signature | cut -c1-220 | head -4 > "$OUT/logs/$P.sigs"
  elif [ $rc -ne 0 ]; then ERR="$ERR $P(rc=$rc)"; fi
done
git checkout -q -- .
# restore evidence files of the unchanged tree (they were rewritten by runs against the seeded change)
[ "$VERIF" = /verif ] && (cd /verif && git checkout -q -- evidence)
python3 - "$OUT" "$ID" "$OV" "$CLEAN_RC" "$BUG_RC" "$BASE" "$FIRED" "$ERR" "$CHECKS" "$REPO" <<'PY'
import json,sys,os
out,idp,v,c,b,base,fired,err,checks,repo=sys.argv[1:]
am={}
try: am=json.load(open(out+'/agent_meta.json'))
except Exception: pass
sigs={}
for p in fired.split():
    try: sigs[p]=[l.strip() for l in open(out+'/logs/%s.sigs'%p)]
    except Exception: sigs[p]=[]
meta={"property":idp,"variant":v,"summary":am.get("summary"),"needs_to_manifest":am.get("needs_to_manifest"),"files_touched":am.get("files_touched"),
 "what_i_ran":["demo on clean tree: rc=%s"%c,"demo with the change: rc=%s"%b,"crate test suite with the change: %s"%base,
               "git -C %s apply patch.diff; ./check <id> (quick tier) for: %s; git -C %s checkout -- ."%(repo,checks,repo)],
 "checks_that_fired":fired.split(),"checks_with_harness_error":err.split(),"signatures":sigs,"detected":idp in fired.split(),"confirmed":True}
json.dump(meta,open(out+'/meta.json','w'),indent=1)
json.dump({"confirmed":True,"fired":fired.split(),"errors":err.split()},open(out+'/results.json','w'))
print("FIRED:",fired,"| harness errors:",err)
PY
