#!/bin/bash
# usage: tools/seed_regress.sh <Cxx>... : fast regression of the kept seeded changes of the given properties against
# the CURRENT harness: applies seeded/<Cxx>-<v>/patch.diff to /repo, runs only the quick check of <Cxx>, undoes it.
# No re-confirmation (that is tools/seed_eval.sh); prints one line per change and compares with meta.json's "detected".
# Nothing else may use /repo or /verif's build meanwhile; evidence files are overwritten (regenerate them afterwards).
cd /verif || exit 2
if ! git -C /repo diff --quiet; then echo "/repo working tree not clean"; exit 2; fi
for ID in "$@"; do
  for D in seeded/$ID-*; do
    [ -f "$D/patch.diff" ] || continue
    [ -f "$D/NOT-KEPT.md" ] && { echo "$D not-kept"; continue; }
    if ! git -C /repo apply "/verif/$D/patch.diff" 2>/dev/null; then echo "$D PATCH-DOES-NOT-APPLY"; git -C /repo checkout -- .; continue; fi
    ./check "$ID" > out/regress_$(basename $D).log 2>&1; rc=$?
    git -C /repo checkout -- .
    was=$(jq -r '.detected' "$D/meta.json" 2>/dev/null)
    if grep -q '^VIOLATION' out/regress_$(basename $D).log; then now=true; else now=false; fi
    flag=""; [ "$was" != "$now" ] && flag=" <== CHANGED"
    echo "$D own-check fired: $now (recorded: $was) rc=$rc$flag"
  done
done
