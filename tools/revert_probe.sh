#!/bin/bash
# usage: revert_probe.sh <fix-commit> <prop> [<prop>...]
# Temporarily reverts one fix: commit in /repo's working tree, runs the given checks,
# keeps their output + replay files under out/revert/<commit>/, and restores /repo.
set -u
C="$1"; shift
cd /repo || exit 2
if ! git diff --quiet; then echo "/repo working tree not clean" >&2; exit 2; fi
OUT=/verif/out/revert/$C; mkdir -p "$OUT"
git diff "$C" "$C^" > "$OUT/revert.diff"
if ! git apply "$OUT/revert.diff"; then echo "revert does not apply (later fixes touch the same lines)"; git checkout -- .; exit 3; fi
for P in "$@"; do
  rm -f /verif/out/replays/$P-*.json
  (cd /verif && ./check "$P" > "$OUT/$P.log" 2>&1)
  echo "== $C $P: $(grep -c '^VIOLATION' "$OUT/$P.log") violation signature(s)"
  grep -A1 '^VIOLATION' "$OUT/$P.log" | grep signature | cut -c1-200 | head -8
  mkdir -p "$OUT/$P"; cp /verif/out/replays/$P-*.json "$OUT/$P/" 2>/dev/null
done
git checkout -- .
