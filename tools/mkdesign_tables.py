#!/usr/bin/env python3
"""Regenerates the AUTOGEN blocks of DESIGN.md (fix log, open findings, seeded-change matrix)
from known_findings.json, /repo's git log and seeded/*/meta.json."""
import json, os, re, subprocess, glob

HERE = os.path.dirname(os.path.dirname(os.path.abspath(__file__)))
K = json.load(open(os.path.join(HERE, "known_findings.json")))["findings"]

def fixes():
    log = subprocess.check_output(["git", "-C", "/repo", "log", "--reverse", "--format=%h\t%s"], text=True).splitlines()
    rows = ["| commit | repair (subject of the `fix:` commit) | properties whose monitor found it (fixed entries) |", "|---|---|---|"]
    for l in log:
        h, s = l.split("\t", 1)
        if not s.startswith("fix:"):
            continue
        props = sorted({f["property"] for f in K if f.get("status") == "fixed" and (f.get("commit") or "").startswith(h[:7])})
        rows.append("| %s | %s | %s |" % (h, s[4:].strip().replace("|", "\\|"), ", ".join(props) or "(found by a probe while building; witness not kept)"))
    return "\n".join(rows)

def open_findings():
    rows = ["| property | signature | what fails | pinned witness |", "|---|---|---|---|"]
    for f in K:
        if f.get("status") != "open":
            continue
        w = f.get("witness") or {}
        ws = w.get("wat") or w.get("file") or ("seed %s idx %s" % (w.get("seed"), w.get("idx")))
        rows.append("| %s | `%s` | %s | %s |" % (f["property"], f["signature"].replace("|", "\\|"), f["what"].replace("|", "\\|"), ws))
    return "\n".join(rows)

def seeded():
    rows = ["| seeded change | breaks | what it needs to manifest | own check fires | all checks that fire |", "|---|---|---|---|---|"]
    n = det = 0
    for d in sorted(glob.glob(os.path.join(HERE, "seeded", "*", "meta.json"))):
        m = json.load(open(d))
        if not m.get("confirmed"):
            continue
        n += 1
        det += 1 if m.get("detected") else 0
        name = os.path.basename(os.path.dirname(d))
        summ = (m.get("summary") or "").replace("|", "\\|").replace("\n", " ")
        need = (m.get("needs_to_manifest") or "").replace("|", "\\|").replace("\n", " ")
        rows.append("| `seeded/%s` — %s | %s | %s | %s | %s |" % (name, summ[:260], m["property"], need[:200], "**yes**" if m.get("detected") else "**no**", " ".join(m.get("checks_that_fired", [])) or "—"))
    rows.append("")
    rows.append("%d confirmed seeded changes, %d detected by the check of the property they were written against." % (n, det))
    return "\n".join(rows)

p = os.path.join(HERE, "DESIGN.md")
s = open(p).read()
for name, fn in [("fixes", fixes), ("open", open_findings), ("seeded", seeded)]:
    a, b = "<!-- AUTOGEN:%s -->" % name, "<!-- /AUTOGEN:%s -->" % name
    if a in s and b in s:
        s = s[: s.index(a) + len(a)] + "\n" + fn() + "\n" + s[s.index(b):]
open(p, "w").write(s)
print("DESIGN.md tables regenerated")
