//! Component generator: valid components from a restricted grammar, assembled with
//! wasm-encoder's component builders. Core modules come from the module generator;
//! nesting up to `max_depth`, with sections *after* every nested component.

use crate::gen::{self, GenCfg};
use crate::rng::Rng;
use std::borrow::Cow;
use wasm_encoder as we;
use wasm_encoder::{
    Alias, CanonicalFunctionSection, Component, ComponentAliasSection, ComponentExportKind, ComponentExportSection,
    ComponentImportSection, ComponentInstanceSection, ComponentNameSection, ComponentSectionId, ComponentTypeRef,
    ComponentTypeSection, ComponentValType, CoreTypeSection, CustomSection, ExportKind, InstanceSection, NameMap,
    PrimitiveValType, RawSection,
};

#[derive(Clone, Debug, Default)]
pub struct GenComp {
    pub bytes: Vec<u8>,
    /// core modules directly contained in the top-level component, in order
    pub modules: Vec<Vec<u8>>,
    pub depth: usize,
    pub n_sections: usize,
    pub has_section_after_nested: bool,
    pub total_modules_all_depths: usize,
}

/// A tiny import-free module with liftable exports: add (i32,i32)->i32 and nop ()->().
fn liftable_module(rng: &mut Rng, uid: u32) -> Vec<u8> {
    use we::{CodeSection, ExportSection, Function, FunctionSection, Instruction as I, Module, TypeSection, ValType};
    let mut m = Module::new();
    let mut t = TypeSection::new();
    t.ty().function([ValType::I32, ValType::I32], [ValType::I32]);
    t.ty().function([], []);
    m.section(&t);
    let mut f = FunctionSection::new();
    f.function(0);
    f.function(1);
    m.section(&f);
    let mut e = ExportSection::new();
    e.export("add", ExportKind::Func, 0);
    e.export("nop", ExportKind::Func, 1);
    m.section(&e);
    let mut c = CodeSection::new();
    let mut f0 = Function::new([]);
    f0.instruction(&I::I32Const((gen::FP_BASE + 5000 + uid) as i32));
    f0.instruction(&I::Drop);
    f0.instruction(&I::LocalGet(0));
    f0.instruction(&I::LocalGet(1));
    f0.instruction(if rng.bool() { &I::I32Add } else { &I::I32Xor });
    f0.instruction(&I::End);
    c.function(&f0);
    let mut f1 = Function::new([]);
    f1.instruction(&I::I32Const((gen::FP_BASE + 6000 + uid) as i32));
    f1.instruction(&I::Drop);
    if rng.bool() {
        f1.instruction(&I::Block(we::BlockType::Empty));
        f1.instruction(&I::Nop);
        f1.instruction(&I::End);
    }
    f1.instruction(&I::End);
    c.function(&f1);
    m.section(&c);
    m.finish()
}

struct B<'r> {
    rng: &'r mut Rng,
    comp: Component,
    // index spaces
    n_core_modules: u32,
    liftable_modules: Vec<u32>,
    n_core_instances: u32,
    /// core instances created from liftable modules
    liftable_instances: Vec<u32>,
    n_core_funcs: u32,
    /// core funcs with signature (i32,i32)->i32
    add_core_funcs: Vec<u32>,
    n_types: u32,
    /// component func types (param a u32)(param b u32)(result u32)
    add_func_types: Vec<u32>,
    value_types: Vec<u32>,
    n_funcs: u32,
    add_funcs: Vec<u32>,
    n_components: u32,
    /// nested components without imports
    closed_components: Vec<u32>,
    n_instances: u32,
    n_core_types: u32,
    names_used: u32,
    uid: u32,
    modules: Vec<Vec<u8>>,
    n_sections: usize,
    saw_nested: bool,
    section_after_nested: bool,
    total_modules: usize,
    has_imports: bool,
}

fn prim(rng: &mut Rng) -> PrimitiveValType {
    *rng.pick(&[
        PrimitiveValType::Bool,
        PrimitiveValType::S8,
        PrimitiveValType::U8,
        PrimitiveValType::S16,
        PrimitiveValType::U32,
        PrimitiveValType::S64,
        PrimitiveValType::F32,
        PrimitiveValType::F64,
        PrimitiveValType::Char,
        PrimitiveValType::String,
    ])
}

impl<'r> B<'r> {
    fn fresh_name(&mut self, p: &str) -> String {
        self.names_used += 1;
        format!("{}-n{}", p, self.names_used)
    }
    fn sec(&mut self) {
        self.n_sections += 1;
        if self.saw_nested {
            self.section_after_nested = true;
        }
    }
    fn val(&mut self) -> ComponentValType {
        if !self.value_types.is_empty() && self.rng.chance(1, 3) {
            ComponentValType::Type(*self.rng.pick(&self.value_types))
        } else {
            ComponentValType::Primitive(prim(self.rng))
        }
    }

    fn step(&mut self, depth: usize, max_depth: usize) {
        let k = self.rng.below(13);
        match k {
            0 => {
                let mut data = self.rng.bytes(5);
                self.uid += 1;
                data.extend_from_slice(&self.uid.to_le_bytes());
                let name = format!("{}{}", self.rng.pick(&["meta", "producers", "x", ""]), self.uid);
                self.comp.section(&CustomSection { name: Cow::Owned(name), data: Cow::Owned(data) });
                self.sec();
            }
            1 | 2 => {
                // core module (generated or liftable)
                let bytes = if self.rng.bool() {
                    self.uid += 1;
                    self.liftable_modules.push(self.n_core_modules);
                    liftable_module(self.rng, self.uid)
                } else {
                    let prof = gen::PROFILES[self.rng.below(gen::PROFILES.len())];
                    let mut cfg = GenCfg::default_for(self.rng);
                    cfg.max_funcs = 3;
                    cfg.max_stmts = 8;
                    cfg.avoid_exnref = true;
                    if self.rng.chance(1, 5) {
                        cfg.max_funcs = 0;
                        cfg.min_funcs = 0;
                    }
                    match gen::generate_valid(self.rng, prof, &cfg) {
                        Ok((g, _)) => g.bytes,
                        Err(_) => {
                            self.uid += 1;
                            self.liftable_modules.push(self.n_core_modules);
                            liftable_module(self.rng, self.uid)
                        }
                    }
                };
                self.comp.section(&RawSection { id: ComponentSectionId::CoreModule.into(), data: &bytes });
                self.modules.push(bytes);
                self.n_core_modules += 1;
                self.total_modules += 1;
                self.sec();
            }
            3 => {
                // component type section with 1..3 types
                let mut ts = ComponentTypeSection::new();
                let n = self.rng.range(1, 3);
                for _ in 0..n {
                    match self.rng.below(9) {
                        0 => {
                            let a = self.val();
                            let b = self.val();
                            ts.defined_type().record([("alpha", a), ("beta", b)]);
                            self.value_types.push(self.n_types);
                        }
                        1 => {
                            let a = self.val();
                            ts.defined_type().list(a);
                            self.value_types.push(self.n_types);
                        }
                        2 => {
                            let a = self.val();
                            let b = self.val();
                            ts.defined_type().tuple([a, b]);
                            self.value_types.push(self.n_types);
                        }
                        3 => {
                            let a = self.val();
                            ts.defined_type().option(a);
                            self.value_types.push(self.n_types);
                        }
                        4 => {
                            let a = if self.rng.bool() { Some(self.val()) } else { None };
                            let b = if self.rng.bool() { Some(self.val()) } else { None };
                            ts.defined_type().result(a, b);
                            self.value_types.push(self.n_types);
                        }
                        5 => {
                            ts.defined_type().enum_type(["red", "green", "blue"]);
                            self.value_types.push(self.n_types);
                        }
                        6 => {
                            ts.defined_type().flags(["fa", "fb"]);
                            self.value_types.push(self.n_types);
                        }
                        7 => {
                            let a = self.val();
                            ts.defined_type().variant([("none", None, None), ("some", Some(a), None)]);
                            self.value_types.push(self.n_types);
                        }
                        _ => {
                            ts.function()
                                .params([
                                    ("a", ComponentValType::Primitive(PrimitiveValType::U32)),
                                    ("b", ComponentValType::Primitive(PrimitiveValType::U32)),
                                ])
                                .result(Some(ComponentValType::Primitive(PrimitiveValType::U32)));
                            self.add_func_types.push(self.n_types);
                        }
                    }
                    self.n_types += 1;
                }
                self.comp.section(&ts);
                self.sec();
            }
            4 => {
                // core instance of a liftable module
                if let Some(m) = self.liftable_modules.last().cloned() {
                    let mut s = InstanceSection::new();
                    let no_args: Vec<(&str, we::ModuleArg)> = vec![];
                    s.instantiate(m, no_args);
                    self.comp.section(&s);
                    self.liftable_instances.push(self.n_core_instances);
                    self.n_core_instances += 1;
                    self.sec();
                }
            }
            5 => {
                // alias core export "add"
                if let Some(i) = self.liftable_instances.last().cloned() {
                    let mut s = ComponentAliasSection::new();
                    s.alias(Alias::CoreInstanceExport { instance: i, kind: ExportKind::Func, name: "add" });
                    self.add_core_funcs.push(self.n_core_funcs);
                    self.n_core_funcs += 1;
                    if self.rng.bool() {
                        s.alias(Alias::CoreInstanceExport { instance: i, kind: ExportKind::Func, name: "nop" });
                        self.n_core_funcs += 1;
                    }
                    self.comp.section(&s);
                    self.sec();
                }
            }
            6 => {
                // canon lift
                if let (Some(cf), Some(ty)) = (self.add_core_funcs.last().cloned(), self.add_func_types.last().cloned()) {
                    let mut s = CanonicalFunctionSection::new();
                    s.lift(cf, ty, []);
                    self.comp.section(&s);
                    self.add_funcs.push(self.n_funcs);
                    self.n_funcs += 1;
                    self.sec();
                }
            }
            7 => {
                // canon lower
                if let Some(f) = self.add_funcs.last().cloned() {
                    let mut s = CanonicalFunctionSection::new();
                    s.lower(f, []);
                    self.comp.section(&s);
                    self.add_core_funcs.push(self.n_core_funcs);
                    self.n_core_funcs += 1;
                    self.sec();
                }
            }
            8 => {
                // import a func
                if let Some(ty) = self.add_func_types.last().cloned() {
                    let mut s = ComponentImportSection::new();
                    let n = self.fresh_name("imp");
                    s.import(&n, ComponentTypeRef::Func(ty));
                    self.comp.section(&s);
                    self.add_funcs.push(self.n_funcs);
                    self.n_funcs += 1;
                    self.has_imports = true;
                    self.sec();
                }
            }
            9 => {
                // export a func
                if let Some(f) = self.add_funcs.last().cloned() {
                    let mut s = ComponentExportSection::new();
                    let n = self.fresh_name("exp");
                    s.export(&n, ComponentExportKind::Func, f, None);
                    self.comp.section(&s);
                    // an export introduces a new func index
                    self.add_funcs.push(self.n_funcs);
                    self.n_funcs += 1;
                    self.sec();
                }
            }
            10 | 11 => {
                if depth < max_depth {
                    let steps = self.rng.range(2, 7);
                    let child = build(self.rng, depth + 1, max_depth, steps);
                    self.comp.section(&RawSection { id: ComponentSectionId::Component.into(), data: &child.bytes });
                    if !child.has_imports {
                        self.closed_components.push(self.n_components);
                    }
                    self.n_components += 1;
                    self.total_modules += child.total_modules;
                    self.n_sections += 1;
                    self.saw_nested = true;
                }
            }
            _ => {
                // instantiate a closed nested component, or a core type section
                if let (Some(c), true) = (self.closed_components.last().cloned(), self.rng.bool()) {
                    let mut s = ComponentInstanceSection::new();
                    let no_args: Vec<(&str, ComponentExportKind, u32)> = vec![];
                    s.instantiate(c, no_args);
                    self.comp.section(&s);
                    self.n_instances += 1;
                    self.sec();
                } else {
                    let mut s = CoreTypeSection::new();
                    s.ty().core().function([we::ValType::I32], [we::ValType::I64]);
                    self.n_core_types += 1;
                    self.comp.section(&s);
                    self.sec();
                }
            }
        }
    }
}

struct Built {
    bytes: Vec<u8>,
    has_imports: bool,
    total_modules: usize,
    modules: Vec<Vec<u8>>,
    n_sections: usize,
    section_after_nested: bool,
}

fn build(rng: &mut Rng, depth: usize, max_depth: usize, steps: usize) -> Built {
    let mut b = B {
        rng,
        comp: Component::new(),
        n_core_modules: 0,
        liftable_modules: vec![],
        n_core_instances: 0,
        liftable_instances: vec![],
        n_core_funcs: 0,
        add_core_funcs: vec![],
        n_types: 0,
        add_func_types: vec![],
        value_types: vec![],
        n_funcs: 0,
        add_funcs: vec![],
        n_components: 0,
        closed_components: vec![],
        n_instances: 0,
        n_core_types: 0,
        names_used: 0,
        uid: (depth as u32) * 1000,
        modules: vec![],
        n_sections: 0,
        saw_nested: false,
        section_after_nested: false,
        total_modules: 0,
        has_imports: false,
    };
    for _ in 0..steps {
        b.step(depth, max_depth);
    }
    // names
    if b.rng.chance(2, 3) {
        let mut ns = ComponentNameSection::new();
        ns.component(&format!("comp-d{}", depth));
        if b.n_core_modules > 0 {
            let mut m = NameMap::new();
            m.append(0, "mod0");
            ns.core_modules(&m);
        }
        if b.n_funcs > 0 {
            let mut m = NameMap::new();
            m.append(0, "func0");
            ns.funcs(&m);
        }
        if b.n_types > 0 {
            let mut m = NameMap::new();
            m.append(0, "type0");
            ns.types(&m);
        }
        if b.n_components > 0 {
            let mut m = NameMap::new();
            m.append(0, "child0");
            ns.components(&m);
        }
        b.comp.section(&ns);
    }
    let _ = (b.n_instances, b.n_core_types);
    Built {
        bytes: b.comp.finish(),
        has_imports: b.has_imports,
        total_modules: b.total_modules,
        modules: b.modules,
        n_sections: b.n_sections,
        section_after_nested: b.section_after_nested,
    }
}

pub fn generate(rng: &mut Rng, max_depth: usize) -> GenComp {
    let steps = rng.range(3, 12);
    let b = build(rng, 0, max_depth, steps);
    GenComp {
        bytes: b.bytes,
        modules: b.modules,
        depth: max_depth,
        n_sections: b.n_sections,
        has_section_after_nested: b.section_after_nested,
        total_modules_all_depths: b.total_modules,
    }
}

pub fn generate_valid(rng: &mut Rng, max_depth: usize) -> Result<GenComp, String> {
    let mut last = String::new();
    for _ in 0..6 {
        let g = generate(rng, max_depth);
        match crate::sym::validate(&g.bytes) {
            Ok(()) => return Ok(g),
            Err(e) => last = e,
        }
    }
    Err(last)
}

/// A component that contains exactly the given core modules (plus optional filler sections).
pub fn wrap_modules(mods: &[Vec<u8>], rng: &mut Rng) -> Vec<u8> {
    let mut c = Component::new();
    for (i, m) in mods.iter().enumerate() {
        if rng.chance(1, 3) {
            c.section(&CustomSection { name: Cow::Owned(format!("between{}", i)), data: Cow::Owned(vec![i as u8, 1, 2]) });
        }
        c.section(&RawSection { id: ComponentSectionId::CoreModule.into(), data: m });
    }
    c.finish()
}

/// The core modules directly contained in a component, in order.
pub fn extract_modules(comp: &[u8]) -> Result<Vec<Vec<u8>>, String> {
    let mut out = vec![];
    let mut depth = 0i32;
    for p in wasmparser::Parser::new(0).parse_all(comp) {
        match p.map_err(|e| e.to_string())? {
            wasmparser::Payload::ModuleSection { unchecked_range, .. } => {
                if depth == 0 {
                    out.push(comp.get(unchecked_range.clone()).ok_or("module range")?.to_vec());
                }
                depth += 1;
            }
            wasmparser::Payload::ComponentSection { .. } => depth += 1,
            wasmparser::Payload::End(_) => depth -= 1,
            _ => {}
        }
    }
    Ok(out)
}
