//! Deterministic PRNG (SplitMix64 seeding a xoshiro256**). No external crates, so
//! case `idx` of seed `s` is reproducible forever.

#[derive(Clone, Debug)]
pub struct Rng {
    s: [u64; 4],
    /// choice tape: while not exhausted, `below(n)` returns tape[pos] % n (systematic
    /// enumeration of short choice sequences); afterwards the PRNG takes over
    tape: Vec<u32>,
    tape_pos: usize,
    /// every value returned by `below` (so a case can be replayed from an explicit tape)
    record: Vec<u32>,
}

fn splitmix(x: &mut u64) -> u64 {
    *x = x.wrapping_add(0x9E3779B97F4A7C15);
    let mut z = *x;
    z = (z ^ (z >> 30)).wrapping_mul(0xBF58476D1CE4E5B9);
    z = (z ^ (z >> 27)).wrapping_mul(0x94D049BB133111EB);
    z ^ (z >> 31)
}

impl Rng {
    pub fn new(seed: u64, stream: u64) -> Rng {
        let mut x = seed ^ stream.wrapping_mul(0xD1342543DE82EF95).rotate_left(17);
        let mut s = [0u64; 4];
        for v in s.iter_mut() {
            *v = splitmix(&mut x);
        }
        Rng { s, tape: vec![], tape_pos: 0, record: vec![] }
    }
    pub fn for_case(seed: u64, prop: &str, idx: u64) -> Rng {
        let mut h: u64 = 0xcbf29ce484222325;
        for b in prop.bytes() {
            h ^= b as u64;
            h = h.wrapping_mul(0x100000001b3);
        }
        Rng::new(seed ^ h, idx)
    }
    pub fn next_u64(&mut self) -> u64 {
        let r = self.s[1].wrapping_mul(5).rotate_left(7).wrapping_mul(9);
        let t = self.s[1] << 17;
        self.s[2] ^= self.s[0];
        self.s[3] ^= self.s[1];
        self.s[1] ^= self.s[2];
        self.s[0] ^= self.s[3];
        self.s[2] ^= t;
        self.s[3] = self.s[3].rotate_left(45);
        r
    }
    pub fn next_u32(&mut self) -> u32 {
        (self.next_u64() >> 32) as u32
    }
    /// uniform in 0..n (n>0)
    pub fn recorded_choices(&self) -> Vec<u32> {
        self.record.clone()
    }
    pub fn with_tape(mut self, tape: Vec<u32>) -> Rng {
        self.tape = tape;
        self.tape_pos = 0;
        self
    }
    pub fn below(&mut self, n: usize) -> usize {
        if n == 0 {
            return 0;
        }
        if self.tape_pos < self.tape.len() {
            let v = self.tape[self.tape_pos] as usize % n;
            self.tape_pos += 1;
            if self.record.len() < 4096 {
                self.record.push(v as u32);
            }
            return v;
        }
        let v = (self.next_u64() % n as u64) as usize;
        if self.record.len() < 4096 {
            self.record.push(v as u32);
        }
        v
    }
    /// inclusive range
    pub fn range(&mut self, lo: usize, hi: usize) -> usize {
        lo + self.below(hi - lo + 1)
    }
    pub fn chance(&mut self, num: u32, den: u32) -> bool {
        (self.below(den as usize) as u32) < num
    }
    pub fn bool(&mut self) -> bool {
        self.below(2) == 1
    }
    pub fn clear_record(&mut self) {
        self.record.clear();
    }
    pub fn pick<'a, T>(&mut self, xs: &'a [T]) -> &'a T {
        &xs[self.below(xs.len())]
    }
    pub fn shuffle<T>(&mut self, xs: &mut [T]) {
        for i in (1..xs.len()).rev() {
            let j = self.below(i + 1);
            xs.swap(i, j);
        }
    }
    /// "interesting" 32-bit values
    pub fn interesting_u32(&mut self) -> u32 {
        match self.below(8) {
            0 => 0,
            1 => 1,
            2 => u32::MAX,
            3 => 0x8000_0000,
            4 => 0x7fff_ffff,
            5 => self.next_u32() & 0xff,
            _ => self.next_u32(),
        }
    }
    pub fn interesting_u64(&mut self) -> u64 {
        match self.below(8) {
            0 => 0,
            1 => 1,
            2 => u64::MAX,
            3 => 0x8000_0000_0000_0000,
            4 => 0x7fff_ffff_ffff_ffff,
            5 => self.next_u64() & 0xffff,
            _ => self.next_u64(),
        }
    }
    pub fn bytes(&mut self, n: usize) -> Vec<u8> {
        (0..n).map(|_| self.next_u32() as u8).collect()
    }
}

/// FNV-1a 64 over bytes (fingerprints of cases / outputs).
pub fn fnv(bytes: &[u8]) -> u64 {
    let mut h: u64 = 0xcbf29ce484222325;
    for b in bytes {
        h ^= *b as u64;
        h = h.wrapping_mul(0x100000001b3);
    }
    h
}
pub fn fnv_mix(a: u64, b: u64) -> u64 {
    let mut h = a ^ 0x9E3779B97F4A7C15;
    h = h.wrapping_mul(0x100000001b3) ^ b;
    h = (h ^ (h >> 29)).wrapping_mul(0xBF58476D1CE4E5B9);
    h ^ (h >> 32)
}
