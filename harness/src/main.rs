mod edit;
mod fixtures;
mod gen;
mod gencomp;
mod gprog;
mod interp;
mod props;
mod rng;
mod runner;
mod sym;

use runner::Tier;

fn usage() -> ! {
    eprintln!("usage: harness run <Cxx> <quick|thorough> <seed> | worker ... | replay <Cxx> <file> | list | gen <profile> <seed> <idx>");
    std::process::exit(2)
}

fn main() {
    let args: Vec<String> = std::env::args().collect();
    if args.len() < 2 {
        usage();
    }
    match args[1].as_str() {
        "list" => {
            for p in props::all() {
                println!("{}", p.id());
            }
        }
        "run" => {
            if args.len() < 5 {
                usage();
            }
            let Some(p) = props::get(&args[2]) else {
                eprintln!("unknown property {}", args[2]);
                std::process::exit(2)
            };
            let tier = Tier::parse(&args[3]);
            let seed: u64 = args[4].parse().unwrap_or(1);
            std::process::exit(runner::run(p.as_ref(), tier, seed));
        }
        "worker" => {
            // worker <prop> <tier> <seed> <shard> <nshards> <out> <skip,csv>
            let p = props::get(&args[2]).expect("prop");
            let tier = Tier::parse(&args[3]);
            let seed: u64 = args[4].parse().unwrap();
            let shard: u64 = args[5].parse().unwrap();
            let nshards: u64 = args[6].parse().unwrap();
            let out = &args[7];
            let skip: Vec<u64> = args.get(8).map(|s| s.split(',').filter_map(|x| x.parse().ok()).collect()).unwrap_or_default();
            runner::worker(p.as_ref(), tier, seed, shard, nshards, out, &skip);
        }
        "witnesses" => {
            // witnesses <prop>: run every pinned witness of the property and print what it produces
            let p = props::get(&args[2]).expect("prop");
            runner::install_panic_hook();
            runner::install_log_sink();
            for f in runner::load_findings().iter().filter(|f| f.property == args[2] && !f.witness.is_null()) {
                let witness: serde_json::Value = match f.witness["file"].as_str() {
                    Some(path) => std::fs::read(format!("{}/{}", std::env::var("VERIF_DIR").unwrap_or_else(|_| "/verif".into()), path))
                        .ok()
                        .and_then(|b| serde_json::from_slice(&b).ok())
                        .unwrap_or(serde_json::Value::Null),
                    None => f.witness.clone(),
                };
                let r = runner::catch(|| p.run_witness(&witness));
                let sigs: Vec<String> = match r {
                    Ok(Some(o)) => o.violations.iter().map(|v| v.sig.clone()).collect(),
                    Ok(None) => vec!["<witness not runnable>".into()],
                    Err(pi) => vec![format!("uncaught-{}", pi.sig())],
                };
                println!("[{}] {} => {:?}", f.status, f.signature, sigs);
            }
        }
        "witness1" => {
            let p = props::get(&args[2]).expect("prop");
            runner::witness_child(p.as_ref(), &args[3]);
        }
        "c03one" => {
            props::c03::child_one(&args[2]);
        }
        "c04one" => {
            props::scen::child_main(args[2].parse().unwrap(), args[3].parse().unwrap(), args[4].parse().unwrap());
        }
        "replay" => {
            let p = props::get(&args[2]).expect("prop");
            std::process::exit(runner::replay(p.as_ref(), &args[3]));
        }
        "case" => {
            // case <prop> <seed> <idx> : run one case verbosely
            let p = props::get(&args[2]).expect("prop");
            let tmp = format!("/tmp/harness-case-{}.json", std::process::id());
            std::fs::write(&tmp, format!("{{\"seed\":{},\"idx\":{}}}", args[3], args[4])).unwrap();
            let rc = runner::replay(p.as_ref(), &tmp);
            let _ = std::fs::remove_file(&tmp);
            std::process::exit(rc);
        }
        "gen" => {
            let prof = gen::PROFILES.iter().find(|p| p.name == args[2]).expect("profile");
            let seed: u64 = args[3].parse().unwrap();
            let idx: u64 = args[4].parse().unwrap();
            let mut r = rng::Rng::for_case(seed, "gen", idx);
            let cfg = gen::GenCfg::default_for(&mut r);
            let g = gen::generate(&mut r, *prof, &cfg);
            match sym::validate(&g.bytes) {
                Ok(()) => eprintln!("valid"),
                Err(e) => eprintln!("INVALID: {}", e),
            }
            println!("{}", sym::print_text(&g.bytes).unwrap_or_else(|e| format!("print error {}", e)));
        }
        "gencomp" => {
            let seed: u64 = args[2].parse().unwrap();
            let n: u64 = args[3].parse().unwrap();
            let mut rej = 0;
            for idx in 0..n {
                let mut r = rng::Rng::for_case(seed, "gencomp", idx);
                let g = gencomp::generate(&mut r, 4);
                if let Err(e) = sym::validate(&g.bytes) {
                    rej += 1;
                    if rej <= 5 {
                        println!("idx {} INVALID {}", idx, e);
                    }
                }
                if n == 1 {
                    println!("{}", sym::print_text(&g.bytes).unwrap_or_else(|e| format!("print error {}", e)));
                }
            }
            println!("rejects {}/{}", rej, n);
        }
        "gprog" => {
            let seed: u64 = args[2].parse().unwrap();
            let n: u64 = args[3].parse().unwrap();
            let mut rej = 0;
            for idx in 0..n {
                let mut r = rng::Rng::for_case(seed, "gprog", idx);
                let p = gprog::generate(&mut r);
                if let Err(e) = sym::validate(&p.bytes) {
                    rej += 1;
                    if rej <= 5 {
                        println!("idx {} INVALID {}", idx, e);
                    }
                }
                if n == 1 {
                    println!("{}", sym::print_text(&p.bytes).unwrap_or_else(|e| format!("print error {}", e)));
                }
            }
            println!("rejects {}/{}", rej, n);
        }
        "hex2wat" => {
            // reads a hex string on stdin, prints the wat with one instruction per line, numbered per function
            let mut h = String::new();
            std::io::Read::read_to_string(&mut std::io::stdin(), &mut h).unwrap();
            let bytes = props::c03::hex_decode(h.trim()).expect("hex");
            match sym::decode(&bytes) {
                Ok(raw) => {
                    for (k, f) in raw.funcs.iter().enumerate() {
                        println!("== function {} ({} ops)", raw.n_imp_funcs as usize + k, f.ops.len());
                        let mut depth = 0usize;
                        for (i, op) in f.ops.iter().enumerate() {
                            if matches!(op.name.as_str(), "End" | "Else") {
                                depth = depth.saturating_sub(1);
                            }
                            println!("{:4} {}{} {}", i, "  ".repeat(depth), op.name, op.bytes.iter().skip(1).map(|b| format!("{:02x}", b)).collect::<String>());
                            if matches!(op.name.as_str(), "Block" | "Loop" | "If" | "Else" | "TryTable") {
                                depth += 1;
                            }
                        }
                    }
                }
                Err(e) => println!("decode error {}", e),
            }
        }
        "genstats" => {
            // how often the generator is rejected, per profile
            let n: u64 = args.get(2).and_then(|s| s.parse().ok()).unwrap_or(200);
            for prof in gen::PROFILES {
                let mut rej = 0;
                let mut first = String::new();
                for idx in 0..n {
                    let mut r = rng::Rng::for_case(7, "gen", idx);
                    let cfg = gen::GenCfg::default_for(&mut r);
                    let g = gen::generate(&mut r, *prof, &cfg);
                    if let Err(e) = sym::validate(&g.bytes) {
                        rej += 1;
                        if first.is_empty() {
                            first = format!("idx {}: {}", idx, e);
                        }
                    }
                }
                println!("{:16} rejects {}/{} {}", prof.name, rej, n, first);
            }
        }
        _ => usage(),
    }
}
