//! Fixture corpus: everything under /repo/tests/test_inputs (.wat/.wasm) and every
//! module / component directive of the .wast files under /repo/tests.

use std::path::{Path, PathBuf};
use std::sync::OnceLock;

pub struct Fixture {
    pub name: String,
    pub bytes: Vec<u8>,
    pub is_component: bool,
    pub valid: bool,
}

fn walk(dir: &Path, out: &mut Vec<PathBuf>) {
    let Ok(rd) = std::fs::read_dir(dir) else { return };
    let mut entries: Vec<_> = rd.flatten().map(|e| e.path()).collect();
    entries.sort();
    for p in entries {
        if p.is_dir() {
            walk(&p, out);
        } else {
            out.push(p);
        }
    }
}

fn is_component(bytes: &[u8]) -> bool {
    bytes.len() >= 8 && bytes[4..8] == [0x0d, 0x00, 0x01, 0x00]
}

fn uses_extended_const(bytes: &[u8]) -> bool {
    // validate with extended-const disabled fails, enabled succeeds
    let mut f = crate::sym::features();
    let mut v = wasmparser::Validator::new_with_features(f);
    if v.validate_all(bytes).is_ok() {
        return false;
    }
    f.insert(wasmparser::WasmFeatures::EXTENDED_CONST);
    let mut v = wasmparser::Validator::new_with_features(f);
    v.validate_all(bytes).is_ok()
}

fn add(out: &mut Vec<Fixture>, name: String, bytes: Vec<u8>) {
    if bytes.len() < 8 || bytes.len() > 1_500_000 {
        return;
    }
    let valid = crate::sym::validate(&bytes).is_ok();
    if !valid && uses_extended_const(&bytes) {
        return;
    }
    out.push(Fixture { name, is_component: is_component(&bytes), bytes, valid });
}

fn from_wast(path: &Path, out: &mut Vec<Fixture>, malformed: &mut Vec<Fixture>) {
    let Ok(text) = std::fs::read_to_string(path) else { return };
    let Ok(buf) = wast::parser::ParseBuffer::new(&text) else { return };
    let Ok(w) = wast::parser::parse::<wast::Wast>(&buf) else { return };
    let pname = path.strip_prefix("/repo/tests").unwrap_or(path).display().to_string();
    for (k, d) in w.directives.into_iter().enumerate() {
        use wast::WastDirective::*;
        match d {
            Module(mut q) | ModuleDefinition(mut q) => {
                if let Ok(b) = q.encode() {
                    add(out, format!("{}#{}", pname, k), b);
                }
            }
            AssertMalformed { mut module, .. } | AssertInvalid { mut module, .. } => {
                if let Ok(b) = module.encode() {
                    if b.len() >= 8 && b.len() < 200_000 {
                        malformed.push(Fixture { name: format!("{}#{}!", pname, k), is_component: is_component(&b), bytes: b, valid: false });
                    }
                }
            }
            _ => {}
        }
    }
}

pub struct Corpus {
    pub valid_modules: Vec<Fixture>,
    pub valid_components: Vec<Fixture>,
    /// payloads of assert_malformed / assert_invalid + fixtures that do not validate
    pub hostile: Vec<Fixture>,
}

static CORPUS: OnceLock<Corpus> = OnceLock::new();

pub fn corpus() -> &'static Corpus {
    CORPUS.get_or_init(|| {
        let mut files = vec![];
        walk(Path::new("/repo/tests"), &mut files);
        let mut all = vec![];
        let mut hostile = vec![];
        for p in files {
            let ext = p.extension().and_then(|e| e.to_str()).unwrap_or("");
            let name = p.strip_prefix("/repo/tests").unwrap_or(&p).display().to_string();
            match ext {
                "wat" => {
                    if let Ok(b) = wat::parse_file(&p) {
                        add(&mut all, name, b);
                    }
                }
                "wasm" => {
                    if let Ok(b) = std::fs::read(&p) {
                        add(&mut all, name, b);
                    }
                }
                "wast" => from_wast(&p, &mut all, &mut hostile),
                _ => {}
            }
        }
        let mut c = Corpus { valid_modules: vec![], valid_components: vec![], hostile };
        for f in all {
            if !f.valid {
                c.hostile.push(f);
            } else if f.is_component {
                c.valid_components.push(f);
            } else {
                c.valid_modules.push(f);
            }
        }
        c
    })
}
