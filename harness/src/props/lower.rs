//! C15 (plain before/after/alternate lowering), C21 (block alternate), C22 (special-mode
//! injections are never silently lost). Reference model of the lowering + marker search.

use crate::gen::{self, GenCfg};
use crate::gencomp;
use crate::rng::{fnv, fnv_mix, Rng};
use crate::runner::{catch, take_logs, CaseOut, PanicInfo, Prop, Tier};
use crate::sym::{self, SymOp};
use serde_json::json;
use std::collections::{BTreeMap, HashMap};
use wasmparser::Operator as O;
use wirm::ir::id::{FunctionID, ModuleID};
use wirm::ir::types::{InstrumentationMode as IM, Location};
use wirm::iterator::component_iterator::ComponentIterator;
use wirm::iterator::iterator_trait::{IteratingInstrumenter, Iterator as WI};
use wirm::iterator::module_iterator::ModuleIterator;
use wirm::opcode::{Inject, InjectAt, Instrumenter};

#[derive(Clone, Copy, Debug, PartialEq, Eq, PartialOrd, Ord)]
pub enum Mode {
    Before,
    After,
    Alt,
    EmptyAlt,
    SemAfter,
    BlockEntry,
    BlockExit,
    BlockAlt,
    EmptyBlockAlt,
    FuncEntry,
    FuncExit,
    /// clear_instr_at(loc, Before / After / Alternate): whatever was injected in that mode at the site so far is withdrawn
    ClearBefore,
    ClearAfter,
    ClearAlt,
    /// clear_instr_at(loc, SemanticAfter / BlockEntry / BlockExit): the special probes of that mode at the site are withdrawn
    ClearSemAfter,
    ClearBlockEntry,
    ClearBlockExit,
}
impl Mode {
    pub fn special(self) -> bool {
        !matches!(self, Mode::Before | Mode::After | Mode::Alt | Mode::EmptyAlt) && self.clears().is_none()
    }
    pub fn clears(self) -> Option<IM> {
        match self {
            Mode::ClearBefore => Some(IM::Before),
            Mode::ClearAfter => Some(IM::After),
            Mode::ClearAlt => Some(IM::Alternate),
            Mode::ClearSemAfter => Some(IM::SemanticAfter),
            Mode::ClearBlockEntry => Some(IM::BlockEntry),
            Mode::ClearBlockExit => Some(IM::BlockExit),
            _ => None,
        }
    }
    fn im(self) -> Option<IM> {
        Some(match self {
            Mode::Before => IM::Before,
            Mode::After => IM::After,
            Mode::Alt => IM::Alternate,
            Mode::SemAfter => IM::SemanticAfter,
            Mode::BlockEntry => IM::BlockEntry,
            Mode::BlockExit => IM::BlockExit,
            Mode::BlockAlt => IM::BlockAlt,
            _ => return None,
        })
    }
}

#[derive(Clone, Copy, Debug, PartialEq, Eq)]
pub enum Path {
    /// iterator positioned at the instruction: mode setter + inject
    Iter,
    /// iterator positioned somewhere in the function: inject_at(idx, mode, op)
    IterInjectAt,
    /// FunctionModifier: *_at(loc) + inject
    Modifier,
    /// FunctionModifier::inject_at
    ModifierInjectAt,
    /// FunctionModifier: func_entry() + an entry marker, NO finish_instr(), then inject_at(idx, mode, op) on the same modifier:
    /// inject_at names its instruction and mode explicitly, so the op belongs there whatever function-level mode is active
    ModifierInjectAtAfterFuncEntry,
    /// iterator standing at its initial position: *_at(loc) sets the mode at the site, add_instr_at(loc, op) files the code there
    IterAddInstrAt,
    /// FunctionModifier: *_at(loc) + add_instr_at(loc, op)
    ModifierAddInstrAt,
    /// one FunctionModifier session over two sites X (= session_x) and Y (= inj.at): after_at(X); before_at(Y); inject(a);
    /// add_instr_at(X, b); inject(c). a and c belong in front of Y, b behind X (add_instr_at must not move the cursor)
    ModifierSession,
}

/// the second site of a `Path::ModifierSession` injection: a non-final instruction other than `at`
pub fn session_x(inj: &Inj, n_ops: usize) -> usize {
    let n = n_ops.saturating_sub(1).max(1);
    let x = (inj.at + 1 + (inj.uid as usize % n)) % n;
    if x == inj.at {
        (x + 1) % n
    } else {
        x
    }
}

#[derive(Clone, Debug)]
pub struct Inj {
    pub func: u32,
    pub at: usize,
    pub mode: Mode,
    pub path: Path,
    pub uid: u32,
    pub n_ops: usize,
    /// the probe starts with a `drop` (replacement of an `if`, which consumed its condition)
    pub leading_drop: bool,
    /// what the probe body is
    pub probe: Probe,
}

#[derive(Clone, Copy, Debug, PartialEq, Eq)]
pub enum Probe {
    /// (i32.const <unique>; drop)+
    Marker,
    /// i32.const <uid>; call 0   (function 0 = imported host.probe)
    Host,
    /// Host followed by the original instruction of the site (neutral alternate)
    HostThenOrig,
    /// global.get 0; i64.const 1; i64.add; global.set 0 : a copy of the clock tick of the generated programs (gprog);
    /// the neutral block alternate of a `block; <tick>; end` construct
    TickCopy,
}

pub const MARK_BASE: u32 = 0x5000_0000;

pub fn probe_ops_for(inj: &Inj) -> Vec<O<'static>> {
    if inj.probe == Probe::TickCopy {
        return vec![O::GlobalGet { global_index: 0 }, O::I64Const { value: 1 }, O::I64Add, O::GlobalSet { global_index: 0 }];
    }
    if inj.probe != Probe::Marker {
        return vec![O::I32Const { value: inj.uid as i32 }, O::Call { function_index: 0 }];
    }
    let mut v = probe_ops(inj.uid, inj.n_ops);
    if inj.leading_drop {
        v.insert(0, O::Drop);
    }
    v
}
pub fn probe_ops(uid: u32, n: usize) -> Vec<O<'static>> {
    // n pairs of (i32.const uid; drop): stack neutral, unique
    let mut v = vec![];
    for k in 0..n.max(1) {
        v.push(O::I32Const { value: (MARK_BASE + uid * 8 + k as u32) as i32 });
        v.push(O::Drop);
    }
    v
}
/// the function-entry marker that accompanies an injection made through `Path::ModifierInjectAtAfterFuncEntry`
pub fn entry_marker_ops(uid: u32) -> Vec<O<'static>> {
    vec![O::I32Const { value: (MARK_BASE + uid * 8 + 7) as i32 }, O::Drop]
}
pub fn marker_present(ops: &[SymOp], uid: u32) -> usize {
    let want = sym::sym_op(&O::I32Const { value: (MARK_BASE + uid * 8) as i32 }).unwrap().bytes;
    ops.iter().filter(|o| o.bytes == want).count()
}

#[derive(Debug)]
pub enum Applied {
    Accepted,
    Rejected(String),
}

fn is_rejection(p: &PanicInfo) -> bool {
    p.msg.starts_with("Cannot apply") || p.msg.contains("instrumentation mode to op type")
}

/// Apply a plan to a module through the module-level API paths. Returns per-injection status + encoded bytes.
pub fn apply_module(base: &[u8], plan: &[Inj]) -> Result<(Vec<Applied>, Result<Vec<u8>, PanicInfo>, Vec<String>), String> {
    let (status, mut encs, logs) = apply_module_multi(base, plan, 1)?;
    Ok((status, encs.remove(0), logs))
}

/// An edit of the import side of the function index space made before the plan is applied (C22: special-mode
/// injections must survive re-indexing). Local functions keep their relative order under both.
#[derive(Clone, Copy, Debug, PartialEq, Eq)]
pub enum PreEdit {
    /// delete_func on an imported function that nothing references
    DeleteImportFunc(u32),
    /// add_import_func with an existing function type
    AddImportFunc(u32),
}

pub fn pre_from_json(w: &serde_json::Value) -> Vec<PreEdit> {
    w.as_array()
        .map(|a| {
            a.iter()
                .filter_map(|e| match (e[0].as_str(), e[1].as_u64()) {
                    (Some("del"), Some(x)) => Some(PreEdit::DeleteImportFunc(x as u32)),
                    (Some("add"), Some(x)) => Some(PreEdit::AddImportFunc(x as u32)),
                    _ => None,
                })
                .collect()
        })
        .unwrap_or_default()
}

pub fn pre_to_json(pre: &[PreEdit]) -> serde_json::Value {
    serde_json::Value::Array(pre.iter().map(|e| match e { PreEdit::DeleteImportFunc(x) => serde_json::json!(["del", x]), PreEdit::AddImportFunc(x) => serde_json::json!(["add", x]) }).collect())
}

pub fn apply_module_multi(base: &[u8], plan: &[Inj], n: usize) -> Result<(Vec<Applied>, Vec<Result<Vec<u8>, PanicInfo>>, Vec<String>), String> {
    apply_module_pre(base, &[], plan, n)
}

/// Same, but `encode()` is called up to `n` times on the same module (C05); stops at the first panic.
pub fn apply_module_pre(base: &[u8], pre: &[PreEdit], plan: &[Inj], n: usize) -> Result<(Vec<Applied>, Vec<Result<Vec<u8>, PanicInfo>>, Vec<String>), String> {
    let mut m = match catch(|| wirm::Module::parse(base, true)) {
        Ok(Ok(m)) => m,
        Ok(Err(e)) => return Err(format!("parse: {}", e)),
        Err(p) => return Err(format!("parse panic: {}", p.sig())),
    };
    for (k, e) in pre.iter().enumerate() {
        let r = catch(|| match e {
            PreEdit::DeleteImportFunc(f) => m.delete_func(FunctionID(*f)),
            PreEdit::AddImportFunc(t) => {
                m.add_import_func("pre".to_string(), format!("added{}", k), wirm::ir::id::TypeID(*t));
            }
        });
        if let Err(p) = r {
            return Err(format!("pre-edit panic (other property): {:?}: {}", e, p.sig()));
        }
    }
    let mut status = vec![];
    for inj in plan {
        let ops = probe_ops_for(inj);
        let r = catch(|| apply_one_module(&mut m, inj, ops));
        match r {
            Ok(()) => status.push(Applied::Accepted),
            Err(p) if is_rejection(&p) => status.push(Applied::Rejected(p.msg.clone())),
            Err(p) => return Err(format!("legal-call-panic {} {:?}: {}", mode_path(inj), inj, p.sig())),
        }
    }
    let _ = take_logs();
    let mut encs = vec![];
    let mut logs: Vec<String> = vec![];
    // C05 also observes emit_wasm: in 1 of 8 bases the second encoding goes through a file
    let via_file = crate::rng::fnv(base) % 8 == 0;
    for k in 0..n.max(1) {
        let enc = if k == 1 && via_file {
            let dir = format!("{}/out/run", std::env::var("VERIF_DIR").unwrap_or_else(|_| "/verif".into()));
            let _ = std::fs::create_dir_all(&dir);
            let path = format!("{}/emit-{}.wasm", dir, std::process::id());
            // (not removed afterwards: a later emission has to replace it completely)
            catch(|| m.emit_wasm(&path).map(|_| std::fs::read(&path).unwrap_or_default()).unwrap_or_default())
        } else {
            catch(|| m.encode())
        };
        let stop = enc.is_err();
        encs.push(enc);
        let l: Vec<String> = take_logs().into_iter().map(|(_, s)| s).collect();
        if k == 0 {
            logs = l;
        }
        if stop {
            break;
        }
    }
    Ok((status, encs, logs))
}

/// One injection on a live module; the documented rejection ("Cannot apply ...") counts as Ok.
pub fn apply_injection<'a>(m: &mut wirm::Module<'a>, inj: &Inj) -> Result<(), PanicInfo> {
    let ops = probe_ops_for(inj);
    match catch(|| apply_one_module(m, inj, ops)) {
        Ok(()) => Ok(()),
        Err(p) if is_rejection(&p) => Ok(()),
        Err(p) => Err(p),
    }
}

fn mode_path(i: &Inj) -> String {
    format!("{:?}/{:?}", i.mode, i.path)
}

fn set_mode_iter<'a, T: IteratingInstrumenter<'a>>(it: &mut T, mode: Mode) {
    match mode {
        Mode::Before => {
            it.before();
        }
        Mode::After => {
            it.after();
        }
        Mode::Alt => {
            it.alternate();
        }
        Mode::EmptyAlt => {
            it.empty_alternate();
        }
        Mode::SemAfter => {
            it.semantic_after();
        }
        Mode::BlockEntry => {
            it.block_entry();
        }
        Mode::BlockExit => {
            it.block_exit();
        }
        Mode::BlockAlt => {
            it.block_alt();
        }
        Mode::EmptyBlockAlt => {
            it.empty_block_alt();
        }
        Mode::FuncEntry => {
            it.func_entry();
        }
        Mode::FuncExit => {
            it.func_exit();
        }
        Mode::ClearBefore | Mode::ClearAfter | Mode::ClearAlt | Mode::ClearSemAfter | Mode::ClearBlockEntry | Mode::ClearBlockExit => {
            unreachable!("clears are applied in apply_one_module")
        }
    }
}
pub fn set_mode_at<'a, T: Instrumenter<'a>>(fm: &mut T, mode: Mode, loc: Location) {
    match mode {
        Mode::Before => {
            fm.before_at(loc);
        }
        Mode::After => {
            fm.after_at(loc);
        }
        Mode::Alt => {
            fm.alternate_at(loc);
        }
        Mode::EmptyAlt => {
            fm.empty_alternate_at(loc);
        }
        Mode::SemAfter => {
            fm.semantic_after_at(loc);
        }
        Mode::BlockEntry => {
            fm.block_entry_at(loc);
        }
        Mode::BlockExit => {
            fm.block_exit_at(loc);
        }
        Mode::BlockAlt => {
            fm.block_alt_at(loc);
        }
        Mode::EmptyBlockAlt => {
            fm.empty_block_alt_at(loc);
        }
        Mode::FuncEntry => {
            fm.func_entry();
        }
        Mode::FuncExit => {
            fm.func_exit();
        }
        Mode::ClearBefore | Mode::ClearAfter | Mode::ClearAlt | Mode::ClearSemAfter | Mode::ClearBlockEntry | Mode::ClearBlockExit => {
            unreachable!("clears are applied in apply_one_module")
        }
    }
}

fn apply_one_module<'a>(m: &mut wirm::Module<'a>, inj: &Inj, ops: Vec<O<'static>>) {
    let loc = Location::Module { func_idx: FunctionID(inj.func), instr_idx: inj.at };
    if let Some(what) = inj.mode.clears() {
        match inj.path {
            Path::Iter | Path::IterInjectAt => {
                let mut it = ModuleIterator::new(m, &vec![]);
                it.clear_instr_at(loc, what);
            }
            _ => {
                let mut fm = m.functions.get_fn_modifier(FunctionID(inj.func)).expect("modifier");
                fm.clear_instr_at(loc, what);
            }
        }
        return;
    }
    let mut ops: Vec<O<'a>> = ops.into_iter().map(|o| o as O<'a>).collect();
    if inj.probe == Probe::HostThenOrig {
        // neutral alternate: the probe followed by the instruction it replaces
        let orig = m.functions.get(FunctionID(inj.func)).unwrap_local().body.instructions[inj.at].op.clone();
        ops.push(orig);
    }
    match inj.path {
        Path::Iter | Path::IterInjectAt => {
            let mut it = ModuleIterator::new(m, &vec![]);
            // walk to the instruction (Iter) or just into the function (IterInjectAt)
            loop {
                if let (Location::Module { func_idx, instr_idx }, _) = it.curr_loc() {
                    if *func_idx == inj.func && (inj.path == Path::IterInjectAt || instr_idx == inj.at) {
                        break;
                    }
                }
                if it.next().is_none() {
                    panic!("harness: iterator never reached {:?}", loc);
                }
            }
            if inj.path == Path::Iter {
                set_mode_iter(&mut it, inj.mode);
                if !matches!(inj.mode, Mode::EmptyAlt | Mode::EmptyBlockAlt) {
                    for o in ops {
                        it.inject(o);
                    }
                }
            } else {
                for o in ops {
                    it.inject_at(inj.at, inj.mode.im().expect("inject_at mode"), o);
                }
            }
            if inj.path == Path::Iter {
                // closes the instruction-level mode only (see C26)
                it.finish_instr();
            }
        }
        Path::ModifierInjectAtAfterFuncEntry => {
            let mut fm = m.functions.get_fn_modifier(FunctionID(inj.func)).expect("modifier");
            fm.func_entry();
            for o in entry_marker_ops(inj.uid) {
                fm.inject(o);
            }
            for o in ops {
                fm.inject_at(inj.at, inj.mode.im().expect("inject_at mode"), o);
            }
            // the function-level mode is closed afterwards (it would otherwise stay active for later calls on this function)
            fm.finish_instr();
        }
        Path::IterAddInstrAt => {
            let mut it = ModuleIterator::new(m, &vec![]);
            set_mode_at(&mut it, inj.mode, loc);
            for o in ops {
                it.add_instr_at(loc, o);
            }
        }
        Path::ModifierAddInstrAt => {
            let mut fm = m.functions.get_fn_modifier(FunctionID(inj.func)).expect("modifier");
            set_mode_at(&mut fm, inj.mode, loc);
            for o in ops {
                fm.add_instr_at(loc, o);
            }
        }
        Path::ModifierSession => {
            let n = m.functions.get(FunctionID(inj.func)).unwrap_local().body.instructions.len();
            let x = Location::Module { func_idx: FunctionID(inj.func), instr_idx: session_x(inj, n) };
            let mut fm = m.functions.get_fn_modifier(FunctionID(inj.func)).expect("modifier");
            let pairs = probe_ops(inj.uid, 3);
            fm.after_at(x);
            fm.before_at(loc);
            fm.inject(pairs[0].clone());
            fm.inject(pairs[1].clone());
            fm.add_instr_at(x, pairs[2].clone());
            fm.add_instr_at(x, pairs[3].clone());
            fm.inject(pairs[4].clone());
            fm.inject(pairs[5].clone());
        }
        Path::Modifier | Path::ModifierInjectAt => {
            let mut fm = m.functions.get_fn_modifier(FunctionID(inj.func)).expect("modifier");
            if inj.path == Path::Modifier {
                set_mode_at(&mut fm, inj.mode, loc);
                if !matches!(inj.mode, Mode::EmptyAlt | Mode::EmptyBlockAlt) {
                    for o in ops {
                        fm.inject(o);
                    }
                }
                fm.finish_instr();
            } else {
                for o in ops {
                    fm.inject_at(inj.at, inj.mode.im().expect("inject_at mode"), o);
                }
            }
        }
    }
}

/// Same plan through the component-level API (the module is wrapped into a component).
pub fn apply_component(base: &[u8], plan: &[Inj], rng: &mut Rng) -> Result<(Vec<Applied>, Result<Vec<u8>, PanicInfo>, Vec<String>), String> {
    apply_component_n(base, plan, rng, 1)
}

/// Same; the component is encoded `n` times and the module of the LAST encoding is returned.
pub fn apply_component_n(base: &[u8], plan: &[Inj], rng: &mut Rng, n: usize) -> Result<(Vec<Applied>, Result<Vec<u8>, PanicInfo>, Vec<String>), String> {
    // 1 case in 3: the component holds the module twice and the plan addresses the SECOND copy (module index 1); the first copy has the
    // same (function, instruction) coordinates, so code filed under the wrong module index lands silently in a module that must not change
    let two = rng.chance(1, 3);
    let t: usize = if two { 1 } else { 0 };
    let mods: Vec<Vec<u8>> = if two { vec![base.to_vec(), base.to_vec()] } else { vec![base.to_vec()] };
    let comp_bytes = gencomp::wrap_modules(&mods, rng);
    let mut comp = match catch(|| wirm::Component::parse(&comp_bytes, true)) {
        Ok(Ok(c)) => c,
        Ok(Err(e)) => return Err(format!("component parse: {}", e)),
        Err(p) => return Err(format!("component parse panic: {}", p.sig())),
    };
    // what the untouched first copy encodes to (same component, no plan)
    let untouched: Option<Vec<u8>> = if two {
        let r = catch(|| wirm::Component::parse(&comp_bytes, true).map(|mut c| c.encode()));
        match r {
            Ok(Ok(b)) => match gencomp::extract_modules(&b) {
                Ok(v) if v.len() == 2 => Some(v[0].clone()),
                _ => return Err("plain component output unusable".to_string()),
            },
            _ => return Err("plain component encode unusable".to_string()),
        }
    } else {
        None
    };
    let mut status = vec![];
    for inj in plan {
        let mut ops: Vec<O<'_>> = probe_ops_for(inj);
        if inj.probe == Probe::HostThenOrig && matches!(inj.path, Path::Iter | Path::IterInjectAt) {
            // neutral alternate: the probe followed by the instruction it replaces (the module-level paths do this in apply_one_module)
            let orig = comp.modules[t].functions.get(FunctionID(inj.func)).unwrap_local().body.instructions[inj.at].op.clone();
            ops.push(orig);
        }
        let r = catch(|| {
            match inj.path {
                Path::Iter | Path::IterInjectAt if inj.mode.clears().is_none() => {
                    let mut it = ComponentIterator::new(&mut comp, HashMap::new());
                    loop {
                        if let (Location::Component { mod_idx, func_idx, instr_idx }, _) = it.curr_loc() {
                            if *mod_idx == t as u32 && *func_idx == inj.func && (inj.path == Path::IterInjectAt || instr_idx == inj.at) {
                                break;
                            }
                        }
                        if it.next().is_none() {
                            panic!("harness: component iterator never reached the location");
                        }
                    }
                    if inj.path == Path::Iter {
                        set_mode_iter(&mut it, inj.mode);
                        if !matches!(inj.mode, Mode::EmptyAlt | Mode::EmptyBlockAlt) {
                            for o in ops {
                                it.inject(o);
                            }
                        }
                    } else {
                        for o in ops {
                            it.inject_at(inj.at, inj.mode.im().expect("inject_at mode"), o);
                        }
                    }
                }
                Path::IterAddInstrAt if inj.mode.clears().is_none() && inj.probe != Probe::HostThenOrig => {
                    // component iterator standing at its initial position (module 0): the explicit location names the module
                    let loc = Location::Component { mod_idx: ModuleID(t as u32), func_idx: FunctionID(inj.func), instr_idx: inj.at };
                    let mut it = ComponentIterator::new(&mut comp, HashMap::new());
                    set_mode_at(&mut it, inj.mode, loc);
                    for o in ops {
                        it.add_instr_at(loc, o);
                    }
                }
                _ => {
                    let m = &mut comp.modules[t];
                    apply_one_module(m, inj, probe_ops_for(inj));
                }
            }
        });
        match r {
            Ok(()) => status.push(Applied::Accepted),
            Err(p) if is_rejection(&p) => status.push(Applied::Rejected(p.msg.clone())),
            Err(p) => return Err(format!("legal-call-panic {} {:?}: {}", mode_path(inj), inj, p.sig())),
        }
    }
    let _ = take_logs();
    let mut enc = catch(|| comp.encode());
    let logs: Vec<String> = take_logs().into_iter().map(|(_, s)| s).collect();
    for _ in 1..n.max(1) {
        if enc.is_err() {
            break;
        }
        enc = catch(|| comp.encode());
    }
    let _ = take_logs();
    let enc = match enc {
        Ok(b) => match gencomp::extract_modules(&b) {
            Ok(mut v) if v.len() == mods.len() => {
                if let Some(u) = &untouched {
                    if &v[0] != u {
                        return Err("other-module-changed: the plan addressed module 1 of the component, module 0 no longer encodes as it does without the plan".to_string());
                    }
                }
                Ok(v.remove(t))
            }
            Ok(v) => return Err(format!("component output has {} modules", v.len())),
            Err(e) => return Err(format!("component output undecodable: {}", e)),
        },
        Err(p) => Err(p),
    };
    Ok((status, enc, logs))
}

// ------------------------------------------------------------------------------------
// reference model of the lowering (C15 + C21)

#[derive(Clone, Default)]
struct Site {
    before: Vec<SymOp>,
    after: Vec<SymOp>,
    alt: Option<Vec<SymOp>>,
    block_alt: Option<Vec<SymOp>>,
}

pub struct Structure {
    /// for an opening op (block/loop/if/try_table): index of its matching end
    pub end_of: BTreeMap<usize, usize>,
    /// for an `else`: index of the matching end
    pub else_end: BTreeMap<usize, usize>,
    /// for an `if`: index of its else (if any)
    pub else_of: BTreeMap<usize, usize>,
    /// block-style opening ops usable for block modes (block/loop/if) + else
    pub blockish: Vec<usize>,
    /// for every block-style op: is its block type empty
    pub empty_type: BTreeMap<usize, bool>,
    /// enclosing construct (opening index) of every instruction
    pub parent: Vec<Option<usize>>,
}

pub fn structure(ops: &[SymOp]) -> Structure {
    let mut s = Structure {
        end_of: BTreeMap::new(),
        else_end: BTreeMap::new(),
        else_of: BTreeMap::new(),
        blockish: vec![],
        empty_type: BTreeMap::new(),
        parent: vec![None; ops.len()],
    };
    let mut stack: Vec<(usize, Option<usize>)> = vec![]; // (open idx, else idx)
    for (i, op) in ops.iter().enumerate() {
        s.parent[i] = stack.last().map(|x| x.0);
        match op.name.as_str() {
            "Block" | "Loop" | "If" | "TryTable" | "Try" => {
                if op.name != "TryTable" && op.name != "Try" {
                    s.blockish.push(i);
                    s.empty_type.insert(i, op.bytes.len() == 2 && op.bytes[1] == 0x40);
                }
                stack.push((i, None));
            }
            "Else" => {
                if let Some(top) = stack.last_mut() {
                    top.1 = Some(i);
                    s.else_of.insert(top.0, i);
                    s.blockish.push(i);
                    s.parent[i] = Some(top.0);
                }
            }
            "End" => {
                if let Some((open, els)) = stack.pop() {
                    s.end_of.insert(open, i);
                    if let Some(e) = els {
                        s.else_end.insert(e, i);
                    }
                    s.parent[i] = Some(open);
                }
            }
            _ => {}
        }
    }
    s
}

pub fn expected_body(ops: &[SymOp], plan: &[&Inj]) -> Vec<SymOp> {
    let st = structure(ops);
    let mut sites: Vec<Site> = vec![Site::default(); ops.len()];
    for inj in plan {
        if inj.path == Path::ModifierSession {
            let pairs: Vec<SymOp> = probe_ops(inj.uid, 3).iter().map(|o| sym::sym_op(o).unwrap()).collect();
            let x = session_x(inj, ops.len());
            sites[inj.at].before.extend(pairs[0..2].iter().cloned());
            sites[x].after.extend(pairs[2..4].iter().cloned());
            sites[inj.at].before.extend(pairs[4..6].iter().cloned());
            continue;
        }
        let probe: Vec<SymOp> = probe_ops_for(inj).iter().map(|o| sym::sym_op(o).unwrap()).collect();
        let s = &mut sites[inj.at];
        match inj.mode {
            Mode::Before => s.before.extend(probe),
            Mode::After => s.after.extend(probe),
            Mode::Alt => s.alt.get_or_insert_with(Vec::new).extend(probe),
            Mode::EmptyAlt => s.alt = Some(vec![]),
            Mode::BlockAlt => s.block_alt.get_or_insert_with(Vec::new).extend(probe),
            Mode::EmptyBlockAlt => s.block_alt = Some(vec![]),
            Mode::ClearBefore => s.before.clear(),
            Mode::ClearAfter => s.after.clear(),
            Mode::ClearAlt => s.alt = None,
            _ => {}
        }
    }
    // block-exit on an `if` (only planned by C21 for an `if` whose else is replaced): lowered at encode time, i.e. behind every
    // before-code the caller put on the else / end where the then-arm falls through
    for inj in plan {
        if inj.mode == Mode::BlockExit && ops[inj.at].name == "If" {
            if let Some(t) = st.else_of.get(&inj.at).or(st.end_of.get(&inj.at)) {
                let probe: Vec<SymOp> = probe_ops_for(inj).iter().map(|o| sym::sym_op(o).unwrap()).collect();
                sites[*t].before.extend(probe);
            }
        }
    }
    let mut out = vec![];
    let last = ops.len() - 1;
    let mut i = 0;
    while i < ops.len() {
        let s = &sites[i];
        if let Some(rep) = &s.block_alt {
            out.extend(s.before.iter().cloned());
            out.extend(rep.iter().cloned());
            if ops[i].name == "Else" {
                // else keyword + arm removed, the end is kept
                i = *st.else_end.get(&i).unwrap_or(&last);
                continue;
            } else {
                out.extend(s.after.iter().cloned());
                i = st.end_of.get(&i).map(|e| e + 1).unwrap_or(ops.len());
                continue;
            }
        }
        out.extend(s.before.iter().cloned());
        match &s.alt {
            Some(a) if i != last => out.extend(a.iter().cloned()),
            _ => out.push(ops[i].clone()),
        }
        if i != last {
            out.extend(s.after.iter().cloned());
        }
        i += 1;
    }
    out
}

fn ops_str(ops: &[SymOp]) -> Vec<String> {
    ops.iter().map(|o| format!("{}:{}", o.name, o.bytes.iter().map(|b| format!("{:02x}", b)).collect::<String>())).collect()
}

fn first_diff(exp: &[SymOp], got: &[SymOp]) -> (usize, String) {
    for i in 0..exp.len().max(got.len()) {
        let a = exp.get(i);
        let b = got.get(i);
        if a.map(|x| (&x.bytes, &x.refs)) != b.map(|x| (&x.bytes, &x.refs)) {
            let kind = match (a, b) {
                (Some(a), Some(b)) => {
                    let am = a.bytes.first() == Some(&0x41) && a.bytes.len() == 6;
                    let bm = b.bytes.first() == Some(&0x41) && b.bytes.len() == 6;
                    if am && !bm {
                        "op-missing"
                    } else if bm && !am {
                        "op-extra"
                    } else {
                        "op-misplaced"
                    }
                }
                (Some(_), None) => "op-missing",
                _ => "op-extra",
            };
            return (i, kind.to_string());
        }
    }
    (0, "equal".into())
}

fn leb_u32(b: &[u8], pos: &mut usize) -> u32 {
    let mut r = 0u32;
    let mut shift = 0;
    while *pos < b.len() {
        let x = b[*pos];
        *pos += 1;
        r |= ((x & 0x7f) as u32) << shift;
        if x & 0x80 == 0 {
            break;
        }
        shift += 7;
    }
    r
}

/// relative depths a branch instruction may jump to
pub fn branch_depths(op: &SymOp) -> Vec<u32> {
    let b = &op.bytes;
    let mut pos = 1;
    match op.name.as_str() {
        "Br" | "BrIf" | "BrOnNull" | "BrOnNonNull" => vec![leb_u32(b, &mut pos)],
        "BrTable" => {
            let n = leb_u32(b, &mut pos);
            (0..=n).map(|_| leb_u32(b, &mut pos)).collect()
        }
        _ => vec![],
    }
}

/// class of the targets of the branch at `at`: func-label / block / loop / mixed
pub fn branch_target_class(ops: &[SymOp], at: usize) -> &'static str {
    let st = structure(ops);
    // chain of enclosing constructs, innermost first
    let mut chain = vec![];
    let mut cur = st.parent[at];
    while let Some(p) = cur {
        chain.push(p);
        cur = st.parent[p];
    }
    let mut classes = std::collections::BTreeSet::new();
    for d in branch_depths(&ops[at]) {
        match chain.get(d as usize) {
            None => classes.insert("func-label"),
            Some(p) if ops[*p].name == "Loop" => classes.insert("loop"),
            Some(_) => classes.insert("block"),
        };
    }
    match classes.len() {
        0 => "none",
        1 => classes.into_iter().next().unwrap(),
        _ if classes.contains("func-label") => "mixed+func-label",
        _ => "mixed",
    }
}

/// absolute targets of the branch at `at`: Some(open pc) per entry, None = function label
pub fn branch_targets_abs(ops: &[SymOp], at: usize) -> Vec<Option<usize>> {
    let st = structure(ops);
    let mut chain = vec![];
    let mut cur = st.parent[at];
    while let Some(p) = cur {
        chain.push(p);
        cur = st.parent[p];
    }
    branch_depths(&ops[at]).into_iter().map(|d| chain.get(d as usize).cloned()).collect()
}

pub struct Lower {
    pub id: &'static str,
}

fn pick_base(rng: &mut Rng, structured: bool) -> Result<gen::GenModule, String> {
    let prof = *rng.pick(&[gen::PROFILES[0], gen::PROFILES[1], gen::PROFILES[2], gen::PROFILES[11], gen::PROFILES[7], gen::PROFILES[5]]);
    let mut cfg = GenCfg::default_for(rng);
    cfg.avoid_exnref = true;
    cfg.min_funcs = 1;
    cfg.max_funcs = 4;
    cfg.max_stmts = if structured { 14 } else { 10 };
    cfg.customs = false;
    // functions are identified by position here: half of the bases have no fingerprint prefix, so that a body can start with a construct
    cfg.no_fingerprint = rng.bool();
    gen::generate_valid(rng, prof, &cfg).map(|(g, _)| g)
}

impl Prop for Lower {
    fn id(&self) -> &'static str {
        self.id
    }
    fn cases(&self, tier: Tier) -> u64 {
        match tier {
            Tier::Quick => 120_000,
            Tier::Thorough => 1_000_000,
        }
    }
    fn rule(&self) -> String {
        match self.id {
            "C15" => "generated bodies + plans of 1..10 before / after / alternate / empty-alternate injections on any instruction (incl. else, inner ends \
                      and the final end), several per site in changing mode order, through ModuleIterator (mode setter + inject, inject_at), FunctionModifier \
                      (*_at + inject, inject_at) and ComponentIterator (module wrapped in a component). Oracle: out = concat(before ++ (alt | op) ++ after), \
                      final end: before ++ end; every other function unchanged. Non-trivial = >= 2 modes on one site or >= 5 sites."
                .into(),
            "C21" => "generated bodies with nested constructs + block-alternate plans (replace / empty; regions disjoint or nested inside one another - the outer replacement wins) on block / loop / if / else whose block \
                      type is empty, combined with plain before/after injections outside the replaced regions; output compared with the region-removal \
                      spec and validated. Non-trivial = >= 1 replaced construct that contains a nested construct or an else."
                .into(),
            _ => "1..3 special-mode injections (semantic-after, block-entry, block-exit, block-alt, empty block-alt, function entry / exit) in distinct \
                  functions, each through a random API path (iterator mode setter + inject, iterator inject_at, modifier *_at + inject, modifier inject_at; \
                  module- and component-level). Each accepted injection's unique marker must occur in the encoded function (empty block-alt: the region \
                  must be gone) and no `BUG:` record may appear on the log facade. Non-trivial = >= 1 accepted special injection."
                .into(),
        }
    }
    fn assumptions(&self) -> Vec<String> {
        vec![
            "probe bodies are (i32.const <unique>; drop)+; a panic whose message starts with 'Cannot apply' at the injecting call is the documented rejection".into(),
            "empty_alternate after alternate injections resets the replacement to empty (latest call wins)".into(),
        ]
    }
    fn anchors(&self) -> Vec<&'static str> {
        match self.id {
            "C15" => vec!["encode_internal"],
            "C21" => vec!["plan.block_alt"],
            _ => vec!["resolve.block_entry", "plan.block_alt", "plan.semantic_after.br", "resolve.func_entry"],
        }
    }
    fn run_witness(&self, w: &serde_json::Value) -> Option<CaseOut> {
        if w["base_hex"].is_string() || w["wat"].is_string() {
            return self.witness(w);
        }
        match (w["seed"].as_u64(), w["idx"].as_u64()) {
            (Some(s), Some(i)) => Some(self.run_case(s, i, false)),
            _ => None,
        }
    }
    fn run_case(&self, seed: u64, idx: u64, want_sample: bool) -> CaseOut {
        let mut rng = Rng::for_case(seed, self.id, idx);
        let (g, plan, via_component, pre) = match gen_plan(self.id, &mut rng) {
            Ok(x) => x,
            Err(e) => {
                let mut out = CaseOut::default();
                out.inconclusive = Some(e);
                return out;
            }
        };
        let profile = g.profile;
        self.evaluate(&g.bytes, profile, plan, via_component, &pre, want_sample, &mut rng)
    }
}

/// Base module + injection plan of one C15 / C21 / C22 case (also the scenario pool of C04 / C05).
pub fn gen_plan(id: &str, rng: &mut Rng) -> Result<(gen::GenModule, Vec<Inj>, bool, Vec<PreEdit>), String> {
    let g = pick_base(rng, id != "C15").map_err(|_| "generator reject".to_string())?;
    let raw_in = sym::decode(&g.bytes).map_err(|e| format!("decode: {}", e))?;
    let nimp = raw_in.n_imp_funcs;
    let via_component = rng.chance(1, 4);
    let mut plan: Vec<Inj> = vec![];
    let mut uid = 1u32;
    // an `if` removed without replacement leaves its condition on the stack: valid lowering, invalid module
    let mut empty_if = false;
    let paths = [Path::Iter, Path::IterInjectAt, Path::Modifier, Path::ModifierInjectAt];
    match id {
        "C15" => {
            let n = rng.range(1, 10);
            for _ in 0..n {
                // bias towards re-using a site
                let (func, at) = if !plan.is_empty() && rng.chance(1, 3) {
                    let p = rng.pick(&plan);
                    (p.func, p.at)
                } else {
                    let f = rng.below(raw_in.funcs.len());
                    (nimp + f as u32, rng.below(raw_in.funcs[f].ops.len()))
                };
                let mut mode = *rng.pick(&[Mode::Before, Mode::After, Mode::Alt, Mode::EmptyAlt, Mode::Before, Mode::After]);
                // replacing / removing a structural keyword yields a body no decoder accepts: only before/after there
                let opname = raw_in.funcs[(func - nimp) as usize].ops[at].name.as_str();
                // (the function's final `end` is different: an alternate there is not applied and the end is kept)
                let final_end = at + 1 == raw_in.funcs[(func - nimp) as usize].ops.len();
                if matches!(mode, Mode::Alt | Mode::EmptyAlt) && matches!(opname, "Block" | "Loop" | "If" | "Else" | "End" | "TryTable" | "Try") && !final_end {
                    mode = Mode::Before;
                }
                let mut path = *rng.pick(&paths);
                if mode == Mode::EmptyAlt && matches!(path, Path::IterInjectAt | Path::ModifierInjectAt) {
                    path = Path::Iter;
                }
                if mode != Mode::EmptyAlt && rng.chance(1, 10) {
                    path = Path::ModifierInjectAtAfterFuncEntry;
                }
                if mode != Mode::EmptyAlt && rng.chance(1, 8) {
                    path = if rng.bool() { Path::IterAddInstrAt } else { Path::ModifierAddInstrAt };
                }
                // a two-site modifier session (needs a body with at least three instructions; the site Y gets before-code)
                let flen = raw_in.funcs[(func - nimp) as usize].ops.len();
                if flen >= 3 && rng.chance(1, 12) {
                    mode = Mode::Before;
                    path = Path::ModifierSession;
                }
                plan.push(Inj { func, at, mode, path, uid, n_ops: rng.range(1, 2), leading_drop: false, probe: Probe::Marker });
                uid += 1;
                // 1 in 8: what was injected at a site in one mode is withdrawn again (and possibly injected anew by a later step)
                if rng.chance(1, 8) {
                    let p = rng.pick(&plan).clone();
                    let clear = match p.mode {
                        Mode::Before => Some(Mode::ClearBefore),
                        Mode::After => Some(Mode::ClearAfter),
                        Mode::Alt | Mode::EmptyAlt => Some(Mode::ClearAlt),
                        _ => None,
                    };
                    if let Some(c) = clear {
                        plan.push(Inj { func: p.func, at: p.at, mode: c, path: *rng.pick(&[Path::Iter, Path::Modifier]), uid, n_ops: 1, leading_drop: false, probe: Probe::Marker });
                        uid += 1;
                    }
                }
            }
        }
        "C21" => {
            // choose non-overlapping empty-typed constructs
            for (f, func) in raw_in.funcs.iter().enumerate() {
                let st = structure(&func.ops);
                let mut taken: Vec<(usize, usize)> = vec![];
                let mut cands = st.blockish.clone();
                rng.shuffle(&mut cands);
                for c in cands.into_iter().take(3) {
                    let is_else = func.ops[c].name == "Else";
                    let (lo, hi) = if is_else {
                        let open = st.parent[c].unwrap();
                        if !st.empty_type.get(&open).copied().unwrap_or(false) {
                            continue;
                        }
                        (c, *st.else_end.get(&c).unwrap_or(&c))
                    } else {
                        if !st.empty_type.get(&c).copied().unwrap_or(false) {
                            continue;
                        }
                        (c, *st.end_of.get(&c).unwrap_or(&c))
                    };
                    // also keep clear of the enclosing construct's keywords when an enclosing one is replaced
                    // disjoint regions, or (1 in 2) a region nested inside / around an already chosen one: the outer replacement wins
                    let nested_ok = rng.chance(1, 2);
                    if taken.iter().any(|(a, b)| {
                        let disjoint = hi < *a || lo > *b;
                        let nested = (lo > *a && hi <= *b) || (*a > lo && *b <= hi);
                        !(disjoint || (nested && nested_ok))
                    }) {
                        continue;
                    }
                    // replacing an `if` or its else while the other is replaced = overlap
                    if rng.chance(1, 2) {
                        taken.push((lo, hi));
                        let mode = if rng.chance(1, 3) { Mode::EmptyBlockAlt } else { Mode::BlockAlt };
                        let mut path = *rng.pick(&paths);
                        if mode == Mode::EmptyBlockAlt && matches!(path, Path::IterInjectAt | Path::ModifierInjectAt) {
                            path = Path::Modifier;
                        }
                        let is_if = func.ops[c].name == "If";
                        if is_if && mode == Mode::EmptyBlockAlt {
                            empty_if = true;
                        }
                        plan.push(Inj { func: nimp + f as u32, at: c, mode, path, uid, n_ops: 1, leading_drop: is_if && mode == Mode::BlockAlt, probe: Probe::Marker });
                        uid += 1;
                        // a replaced else: 1 in 3 its `if` also carries a block-exit probe, which stays where the then-arm ends (in front of the replacement)
                        if is_else && rng.chance(1, 3) {
                            let open = st.parent[c].unwrap();
                            if !taken.iter().any(|(a, b)| open >= *a && open <= *b && !(*a == lo && *b == hi)) {
                                plan.push(Inj { func: nimp + f as u32, at: open, mode: Mode::BlockExit, path: *rng.pick(&[Path::Iter, Path::Modifier]), uid, n_ops: 1, leading_drop: false, probe: Probe::Marker });
                                uid += 1;
                            }
                        }
                        // 1 in 6: replacement code first, then an empty block-alternate on the same construct (the removal wins)
                        if mode == Mode::BlockAlt && rng.chance(1, 6) {
                            if is_if {
                                empty_if = true;
                            }
                            plan.push(Inj { func: nimp + f as u32, at: c, mode: Mode::EmptyBlockAlt, path: *rng.pick(&[Path::Iter, Path::Modifier]), uid, n_ops: 1, leading_drop: false, probe: Probe::Marker });
                            uid += 1;
                        }
                    }
                }
                // special-mode probes on constructs nested strictly INSIDE a replaced region: they disappear with the region
                for (lo, hi) in taken.clone() {
                    let inner: Vec<usize> = st.blockish.iter().cloned().filter(|b| *b > lo && *b < hi).collect();
                    if !inner.is_empty() && rng.chance(1, 3) {
                        let b = *rng.pick(&inner);
                        let m = *rng.pick(&[Mode::BlockEntry, Mode::BlockExit, Mode::SemAfter]);
                        if !(m == Mode::SemAfter && func.ops[b].name == "Loop") {
                            plan.push(Inj { func: nimp + f as u32, at: b, mode: m, path: *rng.pick(&[Path::Iter, Path::Modifier]), uid, n_ops: 1, leading_drop: false, probe: Probe::Marker });
                            uid += 1;
                        }
                    }
                }
                // an ordinary ALTERNATE on an instruction inside a replaced region disappears with the region (what happens to before / after
                // code of removed instructions is not specified and is not generated)
                for (lo, hi) in taken.clone() {
                    let inner: Vec<usize> =
                        (lo + 1..hi).filter(|i| !matches!(func.ops[*i].name.as_str(), "Block" | "Loop" | "If" | "Else" | "End" | "TryTable" | "Try")).collect();
                    if !inner.is_empty() && rng.chance(1, 3) {
                        let at = *rng.pick(&inner);
                        plan.insert(0, Inj { func: nimp + f as u32, at, mode: Mode::Alt, path: *rng.pick(&[Path::Iter, Path::Modifier]), uid, n_ops: 1, leading_drop: false, probe: Probe::Marker });
                        uid += 1;
                    }
                }
                // plain injections outside the replaced regions
                for _ in 0..rng.below(3) {
                    let at = rng.below(func.ops.len());
                    if taken.iter().any(|(a, b)| at >= *a && at <= *b) {
                        continue;
                    }
                    let mode = *rng.pick(&[Mode::Before, Mode::After]);
                    plan.push(Inj { func: nimp + f as u32, at, mode, path: *rng.pick(&paths), uid, n_ops: 1, leading_drop: false, probe: Probe::Marker });
                    uid += 1;
                }
            }
        }
        _ => {
            let mut funcs: Vec<usize> = (0..raw_in.funcs.len()).collect();
            rng.shuffle(&mut funcs);
            for f in funcs.into_iter().take(rng.range(1, 3)) {
                let func = &raw_in.funcs[f];
                let st = structure(&func.ops);
                let mode = *rng.pick(&[Mode::SemAfter, Mode::BlockEntry, Mode::BlockExit, Mode::BlockAlt, Mode::EmptyBlockAlt, Mode::FuncEntry, Mode::FuncExit]);
                let branchy: Vec<usize> = func
                    .ops
                    .iter()
                    .enumerate()
                    .filter(|(_, o)| matches!(o.name.as_str(), "Br" | "BrIf" | "BrTable" | "BrOnNull" | "BrOnNonNull"))
                    .map(|(i, _)| i)
                    .collect();
                let at = match mode {
                    Mode::FuncEntry | Mode::FuncExit => rng.below(func.ops.len()),
                    Mode::SemAfter => {
                        let mut c = st.blockish.clone();
                        c.extend(branchy.iter().cloned());
                        if c.is_empty() || rng.chance(1, 10) {
                            rng.below(func.ops.len())
                        } else {
                            *rng.pick(&c)
                        }
                    }
                    _ => {
                        if st.blockish.is_empty() || rng.chance(1, 10) {
                            rng.below(func.ops.len())
                        } else {
                            *rng.pick(&st.blockish)
                        }
                    }
                };
                // try_table opens a block too: a special mode issued on it is either rejected at the call or must be reflected
                let try_tables: Vec<usize> = func.ops.iter().enumerate().filter(|(_, o)| o.name == "TryTable").map(|(i, _)| i).collect();
                let at = if !try_tables.is_empty() && !matches!(mode, Mode::FuncEntry | Mode::FuncExit) && rng.chance(1, 3) { *rng.pick(&try_tables) } else { at };
                let mut path = *rng.pick(&paths);
                if matches!(mode, Mode::EmptyBlockAlt | Mode::FuncEntry | Mode::FuncExit) && matches!(path, Path::IterInjectAt | Path::ModifierInjectAt) {
                    path = if rng.bool() { Path::Iter } else { Path::Modifier };
                }
                plan.push(Inj { func: nimp + f as u32, at, mode, path, uid, n_ops: 1, leading_drop: false, probe: Probe::Marker });
                uid += 1;
                // semantic-after on an `if` that has an else: 1 in 2 the SAME probe body is also attached to the else (two copies must be emitted)
                if mode == Mode::SemAfter && func.ops[at].name == "If" {
                    if let Some(e) = st.else_of.get(&at) {
                        if rng.bool() {
                            plan.push(Inj { func: nimp + f as u32, at: *e, mode: Mode::SemAfter, path, uid: uid - 1, n_ops: 1, leading_drop: false, probe: Probe::Marker });
                        }
                    }
                }
                // 1 in 4: a function-level probe on the same function as well (entry / exit code must survive whatever the other injection does)
                // (not next to an empty block-alt, whose reflection is judged by comparing the whole body with the removal spec)
                if rng.chance(1, 4) && !matches!(mode, Mode::FuncEntry | Mode::FuncExit | Mode::EmptyBlockAlt) {
                    let fmode = if rng.bool() { Mode::FuncEntry } else { Mode::FuncExit };
                    plan.push(Inj { func: nimp + f as u32, at: 0, mode: fmode, path: Path::Modifier, uid, n_ops: 1, leading_drop: false, probe: Probe::Marker });
                    uid += 1;
                }
                // 1 in 3: an ordinary before / after injection issued later in the same function (it must not make the special one disappear)
                if rng.chance(1, 3) && !matches!(mode, Mode::FuncEntry | Mode::FuncExit) {
                    let pat = rng.below(func.ops.len());
                    // what happens to instrumentation of instructions inside a replaced region is not specified: stay outside
                    let region_end = st.end_of.get(&at).or(st.else_end.get(&at)).copied().unwrap_or(at);
                    if matches!(mode, Mode::BlockAlt | Mode::EmptyBlockAlt) && pat >= at && pat <= region_end {
                        continue;
                    }
                    let pmode = if pat + 1 == func.ops.len() || rng.bool() { Mode::Before } else { Mode::After };
                    plan.push(Inj { func: nimp + f as u32, at: pat, mode: pmode, path: *rng.pick(&[Path::Iter, Path::IterInjectAt, Path::Modifier]), uid, n_ops: 1, leading_drop: false, probe: Probe::Marker });
                    uid += 1;
                }
            }
        }
    }
    if plan.is_empty() {
        return Err("empty plan (no applicable site)".into());
    }
    // C22: in 1 of 3 module-level cases the import side of the function index space is edited first
    let mut pre = vec![];
    let mut via_component = via_component;
    if id == "C22" && rng.chance(1, 3) {
        via_component = false;
        let mut referenced: std::collections::BTreeSet<u32> = std::collections::BTreeSet::new();
        for f in &raw_in.funcs {
            for o in &f.ops {
                referenced.extend(o.refs.iter().filter(|(k, _)| *k == sym::RefKind::Func).map(|(_, i)| *i));
            }
        }
        referenced.extend(raw_in.exports.iter().filter(|(_, k, _)| k == "func").map(|(_, _, i)| *i));
        referenced.extend(raw_in.start.iter().cloned());
        for e in &raw_in.elems {
            match &e.items {
                sym::RawElemItems::Funcs(v) => referenced.extend(v.iter().cloned()),
                sym::RawElemItems::Exprs(_, xs) => {
                    for x in xs {
                        for o in x {
                            referenced.extend(o.refs.iter().filter(|(k, _)| *k == sym::RefKind::Func).map(|(_, i)| *i));
                        }
                    }
                }
            }
        }
        for (_, init) in &raw_in.globals {
            for o in init {
                referenced.extend(o.refs.iter().filter(|(k, _)| *k == sym::RefKind::Func).map(|(_, i)| *i));
            }
        }
        for (_, init) in &raw_in.tables {
            for o in init.iter().flatten() {
                referenced.extend(o.refs.iter().filter(|(k, _)| *k == sym::RefKind::Func).map(|(_, i)| *i));
            }
        }
        let deletable: Vec<u32> = (0..nimp).filter(|f| !referenced.contains(f)).collect();
        let ftypes: Vec<u32> = g.types.iter().enumerate().filter(|(_, t)| matches!(t, gen::TyInfo::Func(..))).map(|(i, _)| i as u32).collect();
        for _ in 0..rng.range(1, 2) {
            if !deletable.is_empty() && rng.bool() {
                let d = *rng.pick(&deletable);
                if !pre.contains(&PreEdit::DeleteImportFunc(d)) {
                    pre.push(PreEdit::DeleteImportFunc(d));
                }
            } else if !ftypes.is_empty() {
                pre.push(PreEdit::AddImportFunc(*rng.pick(&ftypes)));
            }
        }
    }
    Ok((g, plan, via_component, pre))
}

fn mode_of(s: &str) -> Option<Mode> {
    Some(match s {
        "Before" => Mode::Before,
        "After" => Mode::After,
        "Alt" => Mode::Alt,
        "EmptyAlt" => Mode::EmptyAlt,
        "SemAfter" => Mode::SemAfter,
        "BlockEntry" => Mode::BlockEntry,
        "BlockExit" => Mode::BlockExit,
        "BlockAlt" => Mode::BlockAlt,
        "EmptyBlockAlt" => Mode::EmptyBlockAlt,
        "FuncEntry" => Mode::FuncEntry,
        "FuncExit" => Mode::FuncExit,
        "ClearBefore" => Mode::ClearBefore,
        "ClearAfter" => Mode::ClearAfter,
        "ClearAlt" => Mode::ClearAlt,
        "ClearSemAfter" => Mode::ClearSemAfter,
        "ClearBlockEntry" => Mode::ClearBlockEntry,
        "ClearBlockExit" => Mode::ClearBlockExit,
        _ => return None,
    })
}
fn path_of(s: &str) -> Option<Path> {
    Some(match s {
        "Iter" => Path::Iter,
        "IterInjectAt" => Path::IterInjectAt,
        "Modifier" => Path::Modifier,
        "ModifierInjectAt" => Path::ModifierInjectAt,
        "ModifierInjectAtAfterFuncEntry" => Path::ModifierInjectAtAfterFuncEntry,
        "IterAddInstrAt" => Path::IterAddInstrAt,
        "ModifierAddInstrAt" => Path::ModifierAddInstrAt,
        "ModifierSession" => Path::ModifierSession,
        _ => return None,
    })
}
pub fn plan_to_json(plan: &[Inj]) -> serde_json::Value {
    json!(plan
        .iter()
        .map(|i| json!({"func": i.func, "at": i.at, "mode": format!("{:?}", i.mode), "path": format!("{:?}", i.path), "uid": i.uid,
                        "n_ops": i.n_ops, "leading_drop": i.leading_drop, "probe": format!("{:?}", i.probe)}))
        .collect::<Vec<_>>())
}
pub fn plan_from_json(v: &serde_json::Value) -> Option<Vec<Inj>> {
    let mut out = vec![];
    for e in v.as_array()? {
        out.push(Inj {
            func: e["func"].as_u64()? as u32,
            at: e["at"].as_u64()? as usize,
            mode: mode_of(e["mode"].as_str()?)?,
            path: path_of(e["path"].as_str()?)?,
            uid: e["uid"].as_u64()? as u32,
            n_ops: e["n_ops"].as_u64().unwrap_or(1) as usize,
            leading_drop: e["leading_drop"].as_bool().unwrap_or(false),
            probe: match e["probe"].as_str() {
                Some("Host") => Probe::Host,
                Some("HostThenOrig") => Probe::HostThenOrig,
                Some("TickCopy") => Probe::TickCopy,
                _ => Probe::Marker,
            },
        });
    }
    Some(out)
}

impl Lower {
    /// explicit witness: {"base_hex", "plan": [...], "via_component"}
    pub fn witness(&self, w: &serde_json::Value) -> Option<CaseOut> {
        let bytes = match w["wat"].as_str() {
            Some(path) => wat::parse_file(format!("{}/{}", std::env::var("VERIF_DIR").unwrap_or_else(|_| "/verif".into()), path)).ok()?,
            None => crate::props::c03::hex_decode(w["base_hex"].as_str()?)?,
        };
        let plan = plan_from_json(&w["plan"])?;
        let mut rng = Rng::new(1, 1);
        let pre = pre_from_json(&w["pre"]);
        Some(self.evaluate(&bytes, "witness", plan, w["via_component"].as_bool().unwrap_or(false), &pre, false, &mut rng))
    }

    fn evaluate(&self, base: &[u8], profile: &str, plan: Vec<Inj>, via_component: bool, pre: &[PreEdit], want_sample: bool, rng: &mut Rng) -> CaseOut {
        let mut out = CaseOut::default();
        struct G<'x> {
            bytes: &'x [u8],
            profile: &'x str,
        }
        let g = G { bytes: base, profile };
        let raw_in = match sym::decode(g.bytes) {
            Ok(r) => r,
            Err(e) => {
                out.inconclusive = Some(format!("decode: {}", e));
                return out;
            }
        };
        let nimp = raw_in.n_imp_funcs;
        let empty_if = plan.iter().any(|i| {
            i.mode == Mode::EmptyBlockAlt
                && raw_in.funcs.get((i.func - nimp) as usize).and_then(|f| f.ops.get(i.at)).map(|o| o.name == "If").unwrap_or(false)
        });
        let mut rng = rng.clone();
        out.fp = fnv_mix(fnv(&g.bytes), fnv(format!("{:?}{}", plan, via_component).as_bytes()));
        for i in &plan {
            out.ob(format!("mode:{:?}", i.mode));
            out.ob(format!("path:{:?}{}", i.path, if via_component { "@component" } else { "@module" }));
            out.ob(format!("site-op:{:?}:{}", i.mode, raw_in.funcs[(i.func - nimp) as usize].ops[i.at].name));
        }
        for e in pre {
            out.ob(format!("pre-edit:{}", match e { PreEdit::DeleteImportFunc(_) => "delete-import-func", PreEdit::AddImportFunc(_) => "add-import-func" }));
        }
        let applied = if via_component {
            // the first draw of apply_component_n decides whether the plan addresses the second of two module copies
            out.ob(format!("component-target:module-{}", if rng.clone().chance(1, 3) { "1-of-2" } else { "0-of-1" }));
            apply_component(g.bytes, &plan, &mut rng)
        } else {
            apply_module_pre(g.bytes, pre, &plan, 1).map(|(s, mut e, l)| (s, e.remove(0), l))
        };
        let plan_json: Vec<String> = plan.iter().map(|i| format!("{:?}", i)).collect();
        let base_wat = || crate::props::c01::text_of(g.bytes);
        let (status, enc, logs) = match applied {
            Ok(x) => x,
            Err(e) if e.starts_with("legal-call-panic") => {
                let sig = e.split(": ").last().unwrap_or("").to_string();
                let what = e.split(' ').nth(1).unwrap_or("").to_string();
                out.violate(format!("legal-call:{}:{}", what, sig), json!({"plan": plan_json, "error": e, "via_component": via_component, "base_wat": base_wat()}));
                return out;
            }
            Err(e) if e.starts_with("other-module-changed") => {
                out.violate("component:other-module-changed".to_string(), json!({"plan": plan_json, "error": e, "via_component": via_component, "base_wat": base_wat()}));
                return out;
            }
            Err(e) => {
                out.inconclusive = Some(format!("base not usable: {}", crate::runner::norm_msg(&e)));
                return out;
            }
        };
        let encoded = match enc {
            Ok(b) => b,
            Err(p) => {
                out.violate(format!("encode-{}", p.sig()), json!({"plan": plan_json, "panic": p.json(), "via_component": via_component, "base_wat": base_wat()}));
                return out;
            }
        };
        let raw_out = match sym::decode(&encoded) {
            Ok(r) => r,
            Err(e) => {
                out.violate("output-undecodable".to_string(), json!({"plan": plan_json, "error": e, "base_wat": base_wat()}));
                return out;
            }
        };
        if raw_out.funcs.len() != raw_in.funcs.len() {
            out.violate("function-count-changed".to_string(), json!({"plan": plan_json}));
            return out;
        }
        let accepted: Vec<&Inj> = plan.iter().zip(status.iter()).filter(|(_, s)| matches!(s, Applied::Accepted)).map(|(i, _)| i).collect();
        for (i, s) in plan.iter().zip(status.iter()) {
            if let Applied::Rejected(_) = s {
                out.ob(format!("rejected-at-call:{:?}", i.mode));
            }
        }
        match self.id {
            "C15" | "C21" => {
                // in C15/C21 every injection is applicable; a rejection is a violation
                for (i, s) in plan.iter().zip(status.iter()) {
                    if let Applied::Rejected(m) = s {
                        out.violate(format!("applicable-injection-rejected:{:?}", i.mode), json!({"plan": plan_json, "message": m, "base_wat": base_wat()}));
                    }
                }
                let mut multi = false;
                let mut nested = false;
                for (f, func) in raw_in.funcs.iter().enumerate() {
                    let fplan: Vec<&Inj> = accepted.iter().filter(|i| i.func == nimp + f as u32).cloned().collect();
                    let exp = expected_body(&func.ops, &fplan);
                    // function-entry markers of the sticky-entry path are not part of the instruction-level spec: they must exist
                    // (C22's subject), and are removed before the body is compared
                    let entry_consts: Vec<Vec<u8>> = fplan
                        .iter()
                        .filter(|i| i.path == Path::ModifierInjectAtAfterFuncEntry)
                        .map(|i| sym::sym_op(&entry_marker_ops(i.uid)[0]).unwrap().bytes)
                        .collect();
                    let stripped: Vec<SymOp>;
                    let got: &Vec<SymOp> = if entry_consts.is_empty() {
                        &raw_out.funcs[f].ops
                    } else {
                        let src = &raw_out.funcs[f].ops;
                        let mut v = vec![];
                        let mut k = 0;
                        while k < src.len() {
                            if entry_consts.contains(&src[k].bytes) && k + 1 < src.len() && src[k + 1].name == "Drop" {
                                k += 2;
                                continue;
                            }
                            v.push(src[k].clone());
                            k += 1;
                        }
                        stripped = v;
                        &stripped
                    };
                    // sites with >= 2 modes
                    let mut per: BTreeMap<usize, Vec<Mode>> = BTreeMap::new();
                    for i in &fplan {
                        per.entry(i.at).or_default().push(i.mode);
                    }
                    if per.values().any(|v| {
                        let mut v = v.clone();
                        v.sort();
                        v.dedup();
                        v.len() >= 2
                    }) {
                        multi = true;
                    }
                    let st = structure(&func.ops);
                    for i in &fplan {
                        if matches!(i.mode, Mode::BlockAlt | Mode::EmptyBlockAlt) {
                            let hi = st.end_of.get(&i.at).or(st.else_end.get(&i.at)).copied().unwrap_or(i.at);
                            if func.ops[i.at + 1..hi].iter().any(|o| matches!(o.name.as_str(), "Block" | "Loop" | "If" | "Else")) {
                                nested = true;
                            }
                        }
                    }
                    let same = exp.len() == got.len() && exp.iter().zip(got.iter()).all(|(a, b)| a.bytes == b.bytes && a.refs == b.refs);
                    if !same {
                        let (pos, kind) = first_diff(&exp, got);
                        let modes: Vec<String> = {
                            let mut m: Vec<String> = fplan.iter().map(|i| format!("{:?}", i.mode)).collect();
                            m.sort();
                            m.dedup();
                            m
                        };
                        let at_ops: Vec<String> = {
                            let mut m: Vec<String> = fplan.iter().map(|i| format!("{:?}@{}", i.mode, func.ops[i.at].name)).collect();
                            m.sort();
                            m.dedup();
                            m
                        };
                        let sigmodes = if self.id == "C21" { at_ops.iter().filter(|s| s.contains("BlockAlt")).cloned().collect::<Vec<_>>().join("+") } else { modes.join("+") };
                        out.violate(
                            format!("{}:{}", kind, sigmodes),
                            json!({"plan": plan_json, "function": nimp + f as u32, "first_difference_at": pos,
                                   "expected": ops_str(&exp), "observed": ops_str(got), "via_component": via_component, "base_wat": base_wat()}),
                        );
                    } else {
                        out.ob("bodies_equal");
                    }
                }
                if self.id == "C21" {
                    if !empty_if && accepted.iter().any(|i| matches!(i.mode, Mode::BlockAlt | Mode::EmptyBlockAlt)) {
                        match sym::validate(&encoded) {
                            Ok(()) => out.ob("outputs_validated"),
                            Err(e) => out.violate(
                                format!("invalid-output:{}", crate::runner::norm_msg(e.split(" (at offset").next().unwrap_or(&e))),
                                json!({"plan": plan_json, "validator": e, "base_wat": base_wat()}),
                            ),
                        }
                    }
                    out.nontrivial = nested;
                } else {
                    out.nontrivial = multi || accepted.len() >= 5;
                }
            }
            _ => {
                // C22
                for l in &logs {
                    if l.starts_with("BUG:") {
                        let modes: Vec<String> = accepted.iter().map(|i| mode_path(i)).collect();
                        out.violate(format!("bug-log:{}", modes.join("+")), json!({"plan": plan_json, "log": l, "via_component": via_component, "base_wat": base_wat()}));
                        break;
                    }
                }
                for i in &accepted {
                    let f = (i.func - nimp) as usize;
                    let got = &raw_out.funcs[f].ops;
                    let site_op = match raw_in.funcs[f].ops[i.at].name.as_str() {
                        "Block" | "Loop" | "If" | "Else" => "block-style-op",
                        "Br" | "BrIf" | "BrTable" | "BrOnNull" | "BrOnNonNull" | "BrOnCast" | "BrOnCastFail" => "branch-op",
                        "End" => "end",
                        _ => "other-op",
                    };
                    if i.mode == Mode::EmptyBlockAlt {
                        // the region must be gone; ordinary injections made in the same function are part of the expected body
                        let mut with: Vec<&Inj> = accepted.iter().filter(|j| j.func == i.func && !j.mode.special()).cloned().collect();
                        with.push(*i);
                        let exp = expected_body(&raw_in.funcs[f].ops, &with);
                        let same = exp.len() == got.len() && exp.iter().zip(got.iter()).all(|(a, b)| a.bytes == b.bytes);
                        if !same {
                            out.violate(
                                format!("accepted-but-absent:{}@{}", mode_path(i), site_op),
                                json!({"plan": plan_json, "expected": ops_str(&exp), "observed": ops_str(got), "via_component": via_component, "base_wat": base_wat()}),
                            );
                        } else {
                            out.ob("reflected");
                        }
                    } else if marker_present(got, i.uid) < accepted.iter().filter(|j| j.uid == i.uid && j.func == i.func).count() {
                        let tclass = if site_op == "branch-op" { branch_target_class(&raw_in.funcs[f].ops, i.at) } else { "" };
                        let sig = if tclass == "func-label" {
                            // path-independent: the body planned after the function's final end is dropped
                            format!("accepted-but-absent:{:?}@branch-op→func-label", i.mode)
                        } else if tclass.is_empty() {
                            format!("accepted-but-absent:{}@{}", mode_path(i), site_op)
                        } else {
                            format!("accepted-but-absent:{}@{}→{}", mode_path(i), site_op, tclass)
                        };
                        out.violate(
                            sig,
                            json!({"plan": plan_json, "injection": format!("{:?}", i), "observed": ops_str(got), "logs": logs,
                                   "via_component": via_component, "base_wat": base_wat()}),
                        );
                    } else {
                        out.ob("reflected");
                    }
                }
                out.nontrivial = !accepted.is_empty();
            }
        }
        for v in out.violations.iter_mut() {
            if let Some(m) = v.detail.as_object_mut() {
                m.insert(
                    "explicit_witness".into(),
                    json!({"base_hex": g.bytes.iter().map(|b| format!("{:02x}", b)).collect::<String>(), "plan": plan_to_json(&plan), "via_component": via_component,
                           "pre": pre.iter().map(|e| match e { PreEdit::DeleteImportFunc(x) => json!(["del", x]), PreEdit::AddImportFunc(x) => json!(["add", x]) }).collect::<Vec<_>>()}),
                );
            }
        }
        if want_sample {
            out.sample = Some(json!({"profile": g.profile, "plan": plan_json, "via_component": via_component,
                                     "status": status.iter().map(|s| format!("{:?}", s)).collect::<Vec<_>>()}));
        }
        out
    }
}
