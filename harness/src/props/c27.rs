//! C27 — component round trip preserves structure at any nesting depth.
//! C28 — custom sections are preserved and edited exactly.

use crate::fixtures;
use crate::gen::{self, GenCfg};
use crate::gencomp;
use crate::rng::{fnv, fnv_mix, Rng};
use crate::runner::{catch, CaseOut, Prop, Tier};
use crate::sym;
use serde_json::json;
use std::collections::BTreeMap;
use wasmparser::{Parser, Payload};

pub struct C27;

#[derive(Clone, Debug, PartialEq, Eq)]
pub struct Item {
    pub depth: usize,
    pub kind: String,
    pub content: u64,
    pub note: String,
}

fn module_content_hash(bytes: &[u8]) -> (u64, String) {
    match sym::decode(bytes) {
        Ok(raw) => {
            let id = sym::idents(&raw);
            let flat = sym::flatten(&raw, &id);
            let mut s = String::new();
            for (k, v) in &flat {
                s.push_str(k);
                s.push('=');
                s.push_str(v);
                s.push('\n');
            }
            (fnv(s.as_bytes()), format!("module: {} funcs, {} sites", raw.funcs.len(), flat.len()))
        }
        Err(e) => (0, format!("undecodable module: {}", e)),
    }
}

/// depth-annotated payload sequence + component-name sections keyed by the path of the component
pub fn payload_sequence(comp: &[u8]) -> Result<(Vec<Item>, BTreeMap<String, String>), String> {
    let mut items: Vec<Item> = vec![];
    // accumulated item bytes + item count of vector sections (aligned with `items`)
    let mut acc: Vec<Option<(Vec<u8>, u64)>> = vec![];
    let mut names: BTreeMap<String, String> = BTreeMap::new();
    let mut depth = 0usize;
    // path of nested component indices, for names
    let mut path: Vec<usize> = vec![];
    let mut child_counter: Vec<usize> = vec![0];
    let mut skip_module_depth: Option<usize> = None;
    let mut nesting = 0usize; // counts ModuleSection/ComponentSection opened (for End matching)
    let mut kinds_stack: Vec<bool> = vec![]; // true = component, false = module
    for p in Parser::new(0).parse_all(comp) {
        let p = p.map_err(|e| e.to_string())?;
        while acc.len() < items.len() {
            acc.push(None);
        }
        if let Some(d) = skip_module_depth {
            // inside a core module: only look for its End
            if let Payload::End(_) = p {
                if nesting == d {
                    skip_module_depth = None;
                    nesting -= 1;
                    kinds_stack.pop();
                }
            }
            continue;
        }
        match p {
            Payload::Version { .. } => {}
            Payload::ModuleSection { unchecked_range, .. } => {
                let bytes = comp.get(unchecked_range.clone()).ok_or("module range")?;
                let (h, note) = module_content_hash(bytes);
                items.push(Item { depth, kind: "core-module".into(), content: h, note });
                nesting += 1;
                kinds_stack.push(false);
                skip_module_depth = Some(nesting);
            }
            Payload::ComponentSection { .. } => {
                items.push(Item { depth, kind: "component-begin".into(), content: 0, note: String::new() });
                nesting += 1;
                kinds_stack.push(true);
                let c = child_counter.last_mut().unwrap();
                path.push(*c);
                *c += 1;
                child_counter.push(0);
                depth += 1;
            }
            Payload::End(_) => {
                if let Some(true) = kinds_stack.pop() {
                    nesting -= 1;
                    depth -= 1;
                    path.pop();
                    child_counter.pop();
                    items.push(Item { depth, kind: "component-end".into(), content: 0, note: String::new() });
                }
            }
            Payload::CustomSection(c) => {
                if c.name() == "component-name" {
                    // compared as a map, position ignored
                    let mut s = String::new();
                    if let wasmparser::KnownCustom::ComponentName(r) = c.as_known() {
                        for sub in r {
                            match sub.map_err(|e| e.to_string())? {
                                wasmparser::ComponentName::Component { name, .. } => s.push_str(&format!("component={};", name)),
                                wasmparser::ComponentName::Unknown { .. } => {}
                                other => {
                                    let (label, map) = match other {
                                        wasmparser::ComponentName::CoreFuncs(m) => ("core-funcs", m),
                                        wasmparser::ComponentName::CoreGlobals(m) => ("core-globals", m),
                                        wasmparser::ComponentName::CoreMemories(m) => ("core-memories", m),
                                        wasmparser::ComponentName::CoreTables(m) => ("core-tables", m),
                                        wasmparser::ComponentName::CoreTags(m) => ("core-tags", m),
                                        wasmparser::ComponentName::CoreModules(m) => ("core-modules", m),
                                        wasmparser::ComponentName::CoreInstances(m) => ("core-instances", m),
                                        wasmparser::ComponentName::CoreTypes(m) => ("core-types", m),
                                        wasmparser::ComponentName::Types(m) => ("types", m),
                                        wasmparser::ComponentName::Instances(m) => ("instances", m),
                                        wasmparser::ComponentName::Components(m) => ("components", m),
                                        wasmparser::ComponentName::Funcs(m) => ("funcs", m),
                                        wasmparser::ComponentName::Values(m) => ("values", m),
                                        _ => continue,
                                    };
                                    let mut entries = vec![];
                                    for n in map {
                                        let n = n.map_err(|e| e.to_string())?;
                                        entries.push(format!("{}:{}", n.index, n.name));
                                    }
                                    if !entries.is_empty() {
                                        s.push_str(&format!("{}=[{}];", label, entries.join(",")));
                                    }
                                }
                            }
                        }
                    }
                    if !s.is_empty() {
                        names.insert(format!("{:?}", path), s);
                    }
                } else {
                    items.push(Item {
                        depth,
                        kind: "custom".into(),
                        content: fnv_mix(fnv(c.name().as_bytes()), fnv(c.data())),
                        note: format!("{:?} {}B", c.name(), c.data().len()),
                    });
                }
            }
            other => {
                if let Some((id, range)) = other.as_section() {
                    let bytes = comp.get(range.clone()).ok_or("section range")?;
                    let kind = match id {
                        2 => "core-instance",
                        3 => "core-type",
                        5 => "instance",
                        6 => "alias",
                        7 => "type",
                        8 => "canon",
                        9 => "start",
                        10 => "import",
                        11 => "export",
                        _ => "other",
                    };
                    // vector sections: adjacent sections of one kind may be merged by the encoder (framing);
                    // compare the concatenated item bytes and the total item count instead
                    let mut pos = 0;
                    let mut count = 0u64;
                    let mut shift = 0;
                    while pos < bytes.len() {
                        let x = bytes[pos];
                        pos += 1;
                        count |= ((x & 0x7f) as u64) << shift;
                        shift += 7;
                        if x & 0x80 == 0 {
                            break;
                        }
                    }
                    let body = &bytes[pos.min(bytes.len())..];
                    if kind != "start" && kind != "other" {
                        let merged = match (items.last(), acc.last_mut()) {
                            (Some(last), Some(Some((b, n)))) if last.depth == depth && last.kind == kind => {
                                b.extend_from_slice(body);
                                *n += count;
                                true
                            }
                            _ => false,
                        };
                        if merged {
                            continue;
                        }
                        items.push(Item { depth, kind: kind.into(), content: 0, note: String::new() });
                        acc.push(Some((body.to_vec(), count)));
                        continue;
                    } else {
                        items.push(Item { depth, kind: kind.into(), content: fnv(bytes), note: format!("{}B", bytes.len()) });
                    }
                }
            }
        }
    }
    while acc.len() < items.len() {
        acc.push(None);
    }
    for (it, a) in items.iter_mut().zip(acc.iter()) {
        if let Some((b, n)) = a {
            it.content = fnv(b);
            it.note = format!("{}items", n);
        }
    }
    Ok((items, names))
}

impl Prop for C27 {
    fn id(&self) -> &'static str {
        "C27"
    }
    fn cases(&self, tier: Tier) -> u64 {
        match tier {
            Tier::Quick => 48_000,
            Tier::Thorough => 400_000,
        }
    }
    fn rule(&self) -> String {
        "7 of 8 cases: generated components (restricted grammar: core modules from G, core instances, aliases, canon lift/lower, component type \
         sections, imports/exports, instantiation of closed nested components, custom sections anywhere, component-name sections; nesting depth 0..4 \
         with sections after nested components); 1 of 8: component fixtures (tests/ + .wast component directives). The output must validate and its \
         depth-annotated payload sequence (core modules compared with C02's content equality, custom sections by name+data, component-name sections \
         as maps with their position ignored) must equal the input's. Non-trivial = nesting depth >= 2 with a section after a nested component."
            .into()
    }
    fn assumptions(&self) -> Vec<String> {
        vec![
            "non-module sections are compared as raw bytes: inputs come from wasm-encoder / wat and are canonically encoded".into(),
            "wasmparser 0.235 validator with component-model features is the validity oracle".into(),
        ]
    }
    fn anchors(&self) -> Vec<&'static str> {
        vec!["parse_comp.nested_component", "parse_comp.module"]
    }
    fn run_case(&self, seed: u64, idx: u64, want_sample: bool) -> CaseOut {
        let mut out = CaseOut::default();
        let mut rng = Rng::for_case(seed, "C27", idx);
        let c = fixtures::corpus();
        let (name, bytes, gen_info) = if idx % 8 == 7 && !c.valid_components.is_empty() {
            let f = &c.valid_components[((idx / 8) as usize) % c.valid_components.len()];
            (f.name.clone(), f.bytes.clone(), None)
        } else {
            let depth = (idx % 5) as usize;
            match gencomp::generate_valid(&mut rng, depth) {
                Ok(g) => (format!("gen:depth{}", depth), g.bytes.clone(), Some(g)),
                Err(_) => {
                    out.inconclusive = Some("generator reject".into());
                    return out;
                }
            }
        };
        out.fp = fnv(&bytes);
        let (seq_in, names_in) = match payload_sequence(&bytes) {
            Ok(x) => x,
            Err(e) => {
                out.inconclusive = Some(format!("harness decoder failed on input: {}", crate::runner::norm_msg(&e)));
                return out;
            }
        };
        let max_depth = seq_in.iter().map(|i| i.depth).max().unwrap_or(0);
        // section after a nested component at depth >= 1
        let mut after_nested = false;
        for (k, it) in seq_in.iter().enumerate() {
            if it.kind == "component-end" && it.depth >= 1 {
                if let Some(nx) = seq_in.get(k + 1) {
                    if nx.kind != "component-end" {
                        after_nested = true;
                    }
                }
            }
        }
        out.nontrivial = max_depth >= 2 && after_nested;
        out.ob(format!("max-depth:{}", max_depth));
        out.obn("sections", seq_in.len() as u64);
        for it in &seq_in {
            out.ob(format!("kind:{}", it.kind));
        }
        for mm in [true, false] {
            let b = bytes.clone();
            let r = catch(move || {
                let mut c = wirm::Component::parse(&b, mm).map_err(|e| format!("{}", e))?;
                Ok::<_, String>(c.encode())
            });
            let show = |s: &[Item]| s.iter().map(|i| format!("{}{} {}", "  ".repeat(i.depth), i.kind, i.note)).collect::<Vec<_>>();
            let encoded = match r {
                Err(p) => {
                    out.violate(format!("roundtrip-{}", p.sig()), json!({"input": name, "panic": p.json(), "structure": show(&seq_in)}));
                    continue;
                }
                Ok(Err(e)) => {
                    // enable_multi_memory=false legitimately rejects modules using memory.size/grow on a non-zero memory
                    if !mm && e.contains("memory") {
                        out.ob("flag-false-rejected(accepted)");
                        continue;
                    }
                    out.violate(format!("parse-err:{}", crate::runner::norm_msg(&e)), json!({"input": name, "error": e, "structure": show(&seq_in)}));
                    continue;
                }
                Ok(Ok(b)) => b,
            };
            if let Err(e) = sym::validate(&encoded) {
                out.violate(
                    format!("invalid-output:{}", crate::runner::norm_msg(e.split(" (at offset").next().unwrap_or(&e))),
                    json!({"input": name, "validator": e, "structure": show(&seq_in)}),
                );
            } else {
                out.ob("outputs_validated");
            }
            match payload_sequence(&encoded) {
                Err(e) => out.violate("output-undecodable".to_string(), json!({"input": name, "error": e})),
                Ok((seq_out, names_out)) => {
                    // hand-written binaries (`component binary ...` fixtures) may use non-canonical encodings:
                    // when the raw comparison fails, compare against the canonical re-encoding of the input
                    let canon_equal = seq_in != seq_out
                        && wasmprinter::print_bytes(&bytes)
                            .ok()
                            .and_then(|t| wat::parse_str(t).ok())
                            .and_then(|c| payload_sequence(&c).ok())
                            .map(|(s, _)| s == seq_out)
                            .unwrap_or(false);
                    if canon_equal {
                        out.ob("input-canonicalised-before-comparison");
                    }
                    if seq_in != seq_out && !canon_equal {
                        let mut sig = "sequence-differs".to_string();
                        for i in 0..seq_in.len().max(seq_out.len()) {
                            if seq_in.get(i) != seq_out.get(i) {
                                let a = seq_in.get(i);
                                let b = seq_out.get(i);
                                sig = format!(
                                    "component-section@depth{}:{}→{}",
                                    a.or(b).map(|x| x.depth.min(3)).unwrap_or(0),
                                    a.map(|x| x.kind.as_str()).unwrap_or("<none>"),
                                    b.map(|x| x.kind.as_str()).unwrap_or("<none>")
                                );
                                break;
                            }
                        }
                        out.violate(sig, json!({"input": name, "input_structure": show(&seq_in), "output_structure": show(&seq_out),
                                                "component_hex": if bytes.len() < 3000 { bytes.iter().map(|b| format!("{:02x}", b)).collect::<String>() } else { String::new() }}));
                    } else {
                        out.obn("sections_compared", seq_in.len() as u64);
                    }
                    if names_in != names_out {
                        out.violate("component-names-differ".to_string(), json!({"input": name, "in": names_in, "out": names_out}));
                    }
                }
            }
        }
        if want_sample {
            out.sample = Some(json!({"input": name, "bytes": bytes.len(), "max_depth": max_depth, "section_after_nested": after_nested,
                                     "structure": seq_in.iter().map(|i| format!("{}{} {}", "  ".repeat(i.depth), i.kind, i.note)).collect::<Vec<_>>(),
                                     "generated": gen_info.map(|g| g.total_modules_all_depths)}));
        }
        out
    }
}

// ------------------------------------------------------------------------------------

pub struct C28;

#[derive(Clone, Debug)]
enum CsOp {
    Add(String, Vec<u8>),
    Delete(usize),
    Modify(usize, Vec<u8>),
    /// get_id(name): must be the position of the first section with that name (None when there is none)
    Lookup(String, Option<usize>),
    /// get_id(name), then delete through the returned id
    DeleteByName(String),
    /// get_id(name), then get_section_data_mut through the returned id
    ModifyByName(String, Vec<u8>),
    /// an encoding in the middle of the history (its output is compared with the shadow list of that moment)
    Encode(Vec<(String, Vec<u8>)>),
}

impl Prop for C28 {
    fn id(&self) -> &'static str {
        "C28"
    }
    fn cases(&self, tier: Tier) -> u64 {
        match tier {
            Tier::Quick => 80_000,
            Tier::Thorough => 600_000,
        }
    }
    fn rule(&self) -> String {
        "generated modules with 0..6 custom sections at random positions (names incl. producers-like, target_features, linking, .debug_info, \
         sourceMappingURL, empty and non-ASCII names; arbitrary contents) + 0..6 edits through CustomSections::add / delete / get_section_data_mut \
         (ids from get_id or by position). The ordered (name, bytes) list decoded from the output must equal the shadow list and everything else \
         must be C02-equal to the input. Non-trivial = >= 2 custom sections in the input and >= 1 edit, or >= 3 custom sections."
            .into()
    }
    fn assumptions(&self) -> Vec<String> {
        vec!["the name section is not a custom section in the sense of this property and is compared through the decoded name maps".into()]
    }
    fn anchors(&self) -> Vec<&'static str> {
        vec!["encode_internal"]
    }
    fn run_case(&self, seed: u64, idx: u64, want_sample: bool) -> CaseOut {
        let mut out = CaseOut::default();
        let mut rng = Rng::for_case(seed, "C28", idx);
        let prof = gen::PROFILES[rng.below(gen::PROFILES.len())];
        let mut cfg = GenCfg::default_for(&mut rng);
        cfg.avoid_exnref = true;
        cfg.customs = true;
        cfg.max_stmts = 6;
        let g = match gen::generate_valid(&mut rng, prof, &cfg) {
            Ok((g, _)) => g,
            Err(_) => {
                out.inconclusive = Some("generator reject".into());
                return out;
            }
        };
        // add more hostile custom sections by splicing raw sections into the binary
        let mut bytes = g.bytes.clone();
        if let Some((h, mut secs)) = crate::props::c03::split(&bytes) {
            let mut prev_name: Option<&str> = None;
            for _ in 0..rng.below(4) {
                let names = ["producers", "target_features", "linking", ".debug_info", "sourceMappingURL", "", "ünï-cödé", "name2", "reloc.CODE"];
                let mut nm = *rng.pick(&names);
                // 1 in 3: the name of the previously spliced section again (several sections of one name)
                if let (Some(p), true) = (prev_name, rng.chance(1, 3)) {
                    nm = p;
                }
                prev_name = Some(nm);
                if nm == "producers" {
                    // a well-formed producers section
                    let mut body = vec![];
                    body.push(9);
                    body.extend_from_slice(b"producers");
                    body.extend_from_slice(&[1, 8]);
                    body.extend_from_slice(b"language");
                    body.extend_from_slice(&[1, 4]);
                    body.extend_from_slice(b"Rust");
                    body.extend_from_slice(&[1, b'0' + rng.below(9) as u8]);
                    let pos = rng.below(secs.len() + 1);
                    secs.insert(pos, (0, body));
                } else {
                    let mut body = vec![nm.len() as u8];
                    body.extend_from_slice(nm.as_bytes());
                    let n = rng.below(10);
                    body.extend(rng.bytes(n));
                    body.extend_from_slice(&(idx as u32).to_le_bytes());
                    // anywhere except between the name section and the end is fine too
                    let pos = rng.below(secs.len() + 1);
                    secs.insert(pos, (0, body));
                }
            }
            let candidate = crate::props::c03::join(&h, &secs);
            if sym::validate(&candidate).is_ok() {
                bytes = candidate;
            }
        }
        let raw_in = match sym::decode(&bytes) {
            Ok(r) => r,
            Err(e) => {
                out.inconclusive = Some(format!("decode: {}", e));
                return out;
            }
        };
        let mut shadow: Vec<(String, Vec<u8>)> = raw_in.customs.clone();
        let n_in = shadow.len();
        let mut ops: Vec<CsOp> = vec![];
        for _ in 0..rng.below(9) {
            match rng.below(7) {
                3 | 4 | 5 if !shadow.is_empty() => {
                    // by name: 1 in 5 a name that does not occur
                    let nm = if rng.chance(1, 5) { "no-such-section".to_string() } else { shadow[rng.below(shadow.len())].0.clone() };
                    let pos = shadow.iter().position(|c| c.0 == nm);
                    match (rng.below(3), pos) {
                        (0, Some(p)) => {
                            shadow.remove(p);
                            ops.push(CsOp::DeleteByName(nm));
                        }
                        (1, Some(p)) => {
                            let n = rng.below(12);
                            let data = rng.bytes(n);
                            shadow[p].1 = data.clone();
                            ops.push(CsOp::ModifyByName(nm, data));
                        }
                        _ => ops.push(CsOp::Lookup(nm, pos)),
                    }
                }
                6 => ops.push(CsOp::Encode(shadow.clone())),
                0 => {
                    // 1 in 3: the name of a section that exists already
                    let nm = if !shadow.is_empty() && rng.chance(1, 3) {
                        shadow[rng.below(shadow.len())].0.clone()
                    } else {
                        format!("{}{}", rng.pick(&["added", "producers", "", "x.y", "dbg"]), rng.below(50))
                    };
                    let n = rng.below(12);
                    let data = rng.bytes(n);
                    shadow.push((nm.clone(), data.clone()));
                    ops.push(CsOp::Add(nm, data));
                }
                1 if !shadow.is_empty() => {
                    let i = rng.below(shadow.len());
                    shadow.remove(i);
                    ops.push(CsOp::Delete(i));
                }
                _ if !shadow.is_empty() => {
                    let i = rng.below(shadow.len());
                    let n = rng.below(12);
                    let data = rng.bytes(n);
                    shadow[i].1 = data.clone();
                    ops.push(CsOp::Modify(i, data));
                }
                _ => {}
            }
        }
        out.fp = fnv_mix(fnv(&bytes), fnv(format!("{:?}", ops).as_bytes()));
        out.nontrivial = (n_in >= 2 && !ops.is_empty()) || n_in >= 3;
        out.obn("custom_sections_in", n_in as u64);
        for o in &ops {
            out.ob(match o {
                CsOp::Add(..) => "op:add",
                CsOp::Delete(..) => "op:delete",
                CsOp::Modify(..) => "op:modify",
                CsOp::Lookup(_, Some(_)) => "op:get_id(found)",
                CsOp::Lookup(_, None) => "op:get_id(none)",
                CsOp::DeleteByName(..) => "op:delete-by-name",
                CsOp::ModifyByName(..) => "op:modify-by-name",
                CsOp::Encode(..) => "op:encode-mid-history",
            });
        }
        let b2 = bytes.clone();
        let ops2 = ops.clone();
        let twice = rng.chance(1, 3);
        if twice {
            out.ob("encoded-twice");
        }
        // names of added sections must outlive the module
        let leaked: Vec<&'static str> = ops.iter().map(|o| if let CsOp::Add(n, _) = o { Box::leak(n.clone().into_boxed_str()) as &'static str } else { "" }).collect();
        let r = catch(move || {
            use wirm::ir::id::CustomSectionID;
            use wirm::ir::types::CustomSection;
            let mut m = wirm::Module::parse(&b2, true).map_err(|e| format!("{}", e))?;
            for (k, o) in ops2.iter().enumerate() {
                match o {
                    CsOp::Add(_, data) => {
                        m.custom_sections.add(CustomSection::new(leaked[k], data.clone()));
                    }
                    CsOp::Delete(i) => m.custom_sections.delete(CustomSectionID(*i as u32)),
                    CsOp::Modify(i, data) => {
                        let d = m.custom_sections.get_section_data_mut(CustomSectionID(*i as u32)).expect("section id in range");
                        *d = data.clone();
                    }
                    CsOp::Lookup(nm, want) => {
                        let got = m.custom_sections.get_id(nm.clone()).map(|i| *i as usize);
                        if got != *want {
                            return Err(format!("get_id-wrong: get_id({:?}) = {:?}, the first section of that name is at {:?} (op {})", nm, got, want, k));
                        }
                    }
                    CsOp::DeleteByName(nm) => {
                        let id = m.custom_sections.get_id(nm.clone()).ok_or_else(|| format!("get_id-wrong: get_id({:?}) = None for a present section (op {})", nm, k))?;
                        m.custom_sections.delete(id);
                    }
                    CsOp::ModifyByName(nm, data) => {
                        let id = m.custom_sections.get_id(nm.clone()).ok_or_else(|| format!("get_id-wrong: get_id({:?}) = None for a present section (op {})", nm, k))?;
                        let d = m.custom_sections.get_section_data_mut(id).expect("section id from get_id");
                        *d = data.clone();
                    }
                    CsOp::Encode(want) => {
                        let b = m.encode();
                        match sym::decode(&b) {
                            Ok(r) if r.customs == *want => {}
                            Ok(r) => return Err(format!("mid-history-encode-differs: {} custom sections decoded, {} expected (op {})", r.customs.len(), want.len(), k)),
                            Err(e) => return Err(format!("mid-history-encode-undecodable: {}", e)),
                        }
                    }
                }
            }
            // 1 history in 3: the module is encoded twice, the second output is judged
            if twice {
                let _ = m.encode();
            }
            Ok::<_, String>(m.encode())
        });
        let detail = |extra: serde_json::Value| {
            json!({"customs_in": raw_in.customs.iter().map(|(n, b)| format!("{:?}:{}B", n, b.len())).collect::<Vec<_>>(),
                   "ops": ops.iter().map(|o| format!("{:?}", o)).collect::<Vec<_>>(), "what": extra,
                   "base_hex": if bytes.len() < 3000 { bytes.iter().map(|b| format!("{:02x}", b)).collect::<String>() } else { String::new() }})
        };
        let op_class = |ops: &[CsOp]| -> String {
            let mut v: Vec<&str> = ops
                .iter()
                .map(|o| match o {
                    CsOp::Add(..) => "add",
                    CsOp::Delete(..) => "delete",
                    CsOp::Modify(..) => "modify",
                    CsOp::Lookup(..) => "get_id",
                    CsOp::DeleteByName(..) => "delete-by-name",
                    CsOp::ModifyByName(..) => "modify-by-name",
                    CsOp::Encode(..) => "encode",
                })
                .collect();
            v.sort();
            v.dedup();
            if v.is_empty() {
                "parse".into()
            } else {
                v.join("+")
            }
        };
        match r {
            Err(p) => out.violate(format!("{}:{}", op_class(&ops), p.sig()), detail(json!({"panic": p.json()}))),
            Ok(Err(e)) if e.starts_with("get_id-wrong") || e.starts_with("mid-history-encode") => {
                out.violate(format!("{}:{}", op_class(&ops), e.split(':').next().unwrap_or("")), detail(json!({"error": e})))
            }
            Ok(Err(e)) => out.violate(format!("parse-err:{}", crate::runner::norm_msg(&e)), detail(json!({"error": e}))),
            Ok(Ok(encoded)) => match sym::decode(&encoded) {
                Err(e) => out.violate("output-undecodable".to_string(), detail(json!({"error": e}))),
                Ok(raw_out) => {
                    if raw_out.customs != shadow {
                        let kind = if raw_out.customs.len() != shadow.len() {
                            "count-differs"
                        } else if raw_out.customs.iter().map(|c| &c.0).collect::<Vec<_>>() != shadow.iter().map(|c| &c.0).collect::<Vec<_>>() {
                            "order-or-name-differs"
                        } else {
                            "content-differs"
                        };
                        out.violate(
                            format!("{}:{}", op_class(&ops), kind),
                            detail(json!({"expected": shadow.iter().map(|(n, b)| format!("{:?}:{:02x?}", n, b)).collect::<Vec<_>>(),
                                          "observed": raw_out.customs.iter().map(|(n, b)| format!("{:?}:{:02x?}", n, b)).collect::<Vec<_>>()})),
                        );
                    } else {
                        out.obn("custom_sections_compared", shadow.len() as u64);
                    }
                    // nothing else changes
                    let mut f_in = sym::flatten(&raw_in, &sym::idents(&raw_in));
                    let mut f_out = sym::flatten(&raw_out, &sym::idents(&raw_out));
                    f_in.retain(|k, _| !k.starts_with("custom["));
                    f_out.retain(|k, _| !k.starts_with("custom["));
                    if let Some(d) = sym::diff(&f_in, &f_out, 1).first() {
                        out.violate(
                            format!("{}:other-content-changed:{}", op_class(&ops), sym::site_class(&d.site)),
                            detail(json!({"site": d.site, "input": d.expected, "output": d.observed})),
                        );
                    }
                }
            },
        }
        if want_sample {
            out.sample = Some(detail(json!({"profile": g.profile})));
        }
        out
    }
}
