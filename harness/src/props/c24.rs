//! C24 — opcode helpers emit exactly the named instruction. Table oracle: the expected
//! instruction of every helper is derived from the helper's *name* (tools/gen_c24.py) and
//! compared, as encoded bytes, with (a) the operator the builder recorded and (b) the
//! operator decoded from the encoded module.

use super::c24_table::{self, Args};
use crate::rng::{fnv, fnv_mix, Rng};
use crate::runner::{catch, CaseOut, Prop, Tier};
use serde_json::json;
use std::collections::BTreeSet;
use wasm_encoder::reencode::{Reencode, RoundtripReencoder};
use wasm_encoder::Encode;
use wirm::ir::function::FunctionBuilder;

pub struct C24;

fn base_module() -> Vec<u8> {
    wat::parse_str(
        r#"(module
            (type (func))
            (import "env" "f" (func (type 0)))
            (import "env" "g" (global i32))
            (import "env" "m" (memory 1))
            (memory 2)
            (memory 3)
            (global (mut i32) (i32.const 1))
            (global i64 (i64.const 2))
            (func (type 0) nop)
            (func (type 0) nop)
            (data "abc")
        )"#,
    )
    .expect("base module")
}

/// helper names whose immediate goes through wirm's id re-mapping at encode time (must stay in range)
fn mapped_kind(name: &str) -> Option<&'static str> {
    if name == "call" || name == "ref_func" {
        return Some("func");
    }
    if name == "global_get" || name == "global_set" {
        return Some("global");
    }
    if name.starts_with("memory_") || name.contains("_load") || name.contains("_store") {
        return Some("memory");
    }
    None
}

fn random_heap(rng: &mut Rng) -> (wirm::ir::module::module_types::HeapType, wasm_encoder::HeapType) {
    use wasm_encoder::AbstractHeapType as E;
    use wirm::ir::module::module_types::{AbstractHeapType as A, HeapType as H};
    let shared = rng.chance(1, 4);
    let table: [(A, E); 14] = [
        (A::Func, E::Func),
        (A::Extern, E::Extern),
        (A::Any, E::Any),
        (A::None, E::None),
        (A::NoExtern, E::NoExtern),
        (A::NoFunc, E::NoFunc),
        (A::Eq, E::Eq),
        (A::Struct, E::Struct),
        (A::Array, E::Array),
        (A::I31, E::I31),
        (A::Exn, E::Exn),
        (A::NoExn, E::NoExn),
        (A::Cont, E::Cont),
        (A::NoCont, E::NoCont),
    ];
    if rng.chance(1, 5) {
        let idx = rng.next_u32() & 0xfffff;
        (H::Concrete(wasmparser::UnpackedIndex::Module(idx)), wasm_encoder::HeapType::Concrete(idx))
    } else {
        let (a, e) = table[rng.below(14)].clone();
        (H::Abstract { shared, ty: a }, wasm_encoder::HeapType::Abstract { shared, ty: e })
    }
}

fn random_args(rng: &mut Rng, in_range: Option<&str>) -> Args {
    let mut u = [rng.interesting_u32(), rng.interesting_u32()];
    let w = rng.interesting_u64();
    let mut mem = rng.interesting_u32();
    match in_range {
        Some("func") => u[0] = rng.below(3) as u32,
        Some("global") => u[0] = rng.below(3) as u32,
        Some("memory") => {
            u[0] = rng.below(3) as u32;
            u[1] = rng.below(3) as u32;
            mem = rng.below(3) as u32;
        }
        _ => {}
    }
    let (bt, bt_enc) = match rng.below(9) {
        0 => (wirm::ir::types::BlockType::Empty, wasm_encoder::BlockType::Empty),
        1 => (wirm::ir::types::BlockType::Type(wirm::DataType::I32), wasm_encoder::BlockType::Result(wasm_encoder::ValType::I32)),
        2 => (wirm::ir::types::BlockType::Type(wirm::DataType::F64), wasm_encoder::BlockType::Result(wasm_encoder::ValType::F64)),
        3 => (wirm::ir::types::BlockType::Type(wirm::DataType::V128), wasm_encoder::BlockType::Result(wasm_encoder::ValType::V128)),
        4 => (
            wirm::ir::types::BlockType::Type(wirm::DataType::FuncRefNull),
            wasm_encoder::BlockType::Result(wasm_encoder::ValType::Ref(wasm_encoder::RefType::FUNCREF)),
        ),
        5 => (
            wirm::ir::types::BlockType::Type(wirm::DataType::ExternRef),
            wasm_encoder::BlockType::Result(wasm_encoder::ValType::Ref(wasm_encoder::RefType {
                nullable: false,
                heap_type: wasm_encoder::HeapType::Abstract { shared: false, ty: wasm_encoder::AbstractHeapType::Extern },
            })),
        ),
        6 => {
            // every abstract reference DataType, nullable and not (independent table: variant name -> (nullable, heap type))
            use wasm_encoder::AbstractHeapType as E;
            use wirm::DataType as D;
            let table: [(D, bool, E); 20] = [
                (D::FuncRef, false, E::Func),
                (D::FuncRefNull, true, E::Func),
                (D::ExternRef, false, E::Extern),
                (D::ExternRefNull, true, E::Extern),
                (D::Any, false, E::Any),
                (D::AnyNull, true, E::Any),
                (D::None, false, E::None),
                (D::NoneNull, true, E::None),
                (D::NoExtern, false, E::NoExtern),
                (D::NoExternNull, true, E::NoExtern),
                (D::NoFunc, false, E::NoFunc),
                (D::NoFuncNull, true, E::NoFunc),
                (D::Eq, false, E::Eq),
                (D::EqNull, true, E::Eq),
                (D::Struct, false, E::Struct),
                (D::StructNull, true, E::Struct),
                (D::Array, false, E::Array),
                (D::ArrayNull, true, E::Array),
                (D::I31, false, E::I31),
                (D::I31Null, true, E::I31),
            ];
            let (d, nullable, e) = table[rng.below(20)].clone();
            (
                wirm::ir::types::BlockType::Type(d),
                wasm_encoder::BlockType::Result(wasm_encoder::ValType::Ref(wasm_encoder::RefType { nullable, heap_type: wasm_encoder::HeapType::Abstract { shared: false, ty: e } })),
            )
        }
        _ => {
            let t = rng.next_u32() & 0x0fff_ffff;
            (wirm::ir::types::BlockType::FuncType(wirm::ir::id::TypeID(t)), wasm_encoder::BlockType::FunctionType(t))
        }
    };
    let align = rng.below(4) as u8;
    let offset = if rng.bool() { rng.interesting_u64() } else { rng.below(1 << 16) as u64 };
    let memarg = wasmparser::MemArg { align, max_align: align, offset, memory: mem };
    let memarg_enc = wasm_encoder::MemArg { offset, align: align as u32, memory_index: mem };
    let (ht, ht_enc) = random_heap(rng);
    Args { u, w, bt, bt_enc, memarg, memarg_enc, ht, ht_enc }
}

fn enc(i: &wasm_encoder::Instruction) -> Vec<u8> {
    let mut b = vec![];
    i.encode(&mut b);
    b
}
fn enc_op(op: &wasmparser::Operator) -> Result<Vec<u8>, String> {
    let mut r = RoundtripReencoder;
    r.instruction(op.clone()).map(|i| enc(&i)).map_err(|e| e.to_string())
}
fn hex(b: &[u8]) -> String {
    b.iter().map(|x| format!("{:02x}", x)).collect()
}

pub fn helper_names_in_source() -> Vec<String> {
    let Ok(src) = std::fs::read_to_string("/repo/src/opcode.rs") else { return vec![] };
    let Some(start) = src.find("pub trait Opcode<'a>") else { return vec![] };
    let mut out = vec![];
    for line in src[start..].lines() {
        let t = line.trim_start();
        if let Some(rest) = t.strip_prefix("fn ") {
            if let Some(p) = rest.find('(') {
                out.push(rest[..p].trim().to_string());
            }
        }
    }
    out
}

impl Prop for C24 {
    fn id(&self) -> &'static str {
        "C24"
    }
    fn cases(&self, tier: Tier) -> u64 {
        let n = c24_table::NAMES.len() as u64;
        match tier {
            Tier::Quick => n * 768,
            Tier::Thorough => n * 16384,
        }
    }
    fn exhaustive(&self, _t: Tier) -> bool {
        // exhaustive over helpers, random over immediates
        false
    }
    fn rule(&self) -> String {
        format!(
            "case idx -> helper NAMES[idx % {n}] (every helper of Opcode and MacroOpcode, {n} in total) with random immediates (indices over \
             the full u32 range incl. 0 / u32::MAX / sign-bit values, f32/f64 from random bit patterns incl. signalling NaNs, memargs, block \
             types, heap types, u32_const/u64_const over the full unsigned range). Checked on the builder's recorded operator and, for a \
             second draw whose re-mapped ids are in range, on the operator decoded from Module::encode(). Non-trivial = the helper takes an \
             immediate or is one of the 131 immediate-free ones seen for the first time in this shard; distinct = (helper, immediates).",
            n = c24_table::NAMES.len()
        )
    }
    fn assumptions(&self) -> Vec<String> {
        vec![
            "the expected instruction of a helper is derived from its name by the rules in tools/gen_c24.py (spec mnemonics); only names and parameter lists are read from src/opcode.rs".into(),
            "byte-level comparison through wasm-encoder's instruction encoder on both sides".into(),
        ]
    }
    fn extra_coverage(&self, _tier: Tier) -> serde_json::Map<String, serde_json::Value> {
        let known: BTreeSet<&str> = c24_table::NAMES.iter().cloned().collect();
        let src = helper_names_in_source();
        let uncovered: Vec<String> = src.iter().filter(|n| !known.contains(n.as_str())).cloned().collect();
        let mut m = serde_json::Map::new();
        m.insert("helpers_in_table".into(), json!(c24_table::NAMES.len()));
        m.insert("helpers_in_source".into(), json!(src.len()));
        m.insert("uncovered_helpers".into(), json!(uncovered));
        m
    }
    fn post(&self, _seed: u64, _tier: Tier, merged: &mut crate::runner::Merged) {
        let known: BTreeSet<&str> = c24_table::NAMES.iter().cloned().collect();
        let uncovered: Vec<String> = helper_names_in_source().into_iter().filter(|n| !known.contains(n.as_str())).collect();
        if !uncovered.is_empty() {
            *merged.inconclusive.entry(format!("helpers not in the table (regenerate with tools/gen_c24.py): {:?}", uncovered)).or_insert(0) += 1;
        }
    }
    fn run_case(&self, seed: u64, idx: u64, want_sample: bool) -> CaseOut {
        let mut out = CaseOut::default();
        let mut rng = Rng::for_case(seed, "C24", idx);
        let name = c24_table::NAMES[(idx % c24_table::NAMES.len() as u64) as usize];
        out.ob(format!("helper:{}", name));
        // (a) on the builder's IR, unconstrained immediates
        let a = random_args(&mut rng, None);
        let expected = c24_table::expected(name, &a).expect("table entry");
        let exp_bytes = enc(&expected);
        out.fp = fnv_mix(fnv(name.as_bytes()), fnv(&exp_bytes));
        out.nontrivial = true;
        let r = catch(|| {
            let mut fb = FunctionBuilder::new(&[], &[]);
            let ok = c24_table::apply(name, &mut fb, &a);
            (ok, fb.body.instructions.iter().map(|i| i.op.clone()).collect::<Vec<_>>())
        });
        match r {
            Err(p) => out.violate(format!("{}:helper-{}", name, p.sig()), json!({"helper": name, "panic": p.json()})),
            Ok((_, ops)) => {
                if ops.len() != 1 {
                    out.violate(format!("{}:appended-{}-instructions", name, ops.len()), json!({"helper": name, "ops": format!("{:?}", ops)}));
                } else {
                    match enc_op(&ops[0]) {
                        Ok(b) if b == exp_bytes => out.ob("ir_checked"),
                        Ok(b) => out.violate(
                            format!("{}:{}", name, if b.first() == exp_bytes.first() && b.get(1) == exp_bytes.get(1) { "immediate-differs" } else { "wrong-opcode" }),
                            json!({"helper": name, "expected": format!("{:?}", expected), "expected_bytes": hex(&exp_bytes),
                                   "recorded": format!("{:?}", ops[0]), "recorded_bytes": hex(&b)}),
                        ),
                        Err(e) => out.violate(format!("{}:unencodable", name), json!({"helper": name, "error": e, "recorded": format!("{:?}", ops[0])})),
                    }
                }
            }
        }
        // (b) through finish_module + encode + independent decode
        let a2 = random_args(&mut rng, mapped_kind(name).or(Some("none")));
        let expected2 = c24_table::expected(name, &a2).expect("table entry");
        let exp2 = enc(&expected2);
        let base = base_module();
        let r2 = catch(|| {
            let mut m = wirm::Module::parse(&base, true).expect("parse base");
            let mut fb = FunctionBuilder::new(&[], &[]);
            // keep the body structurally well-formed so that the decoder's operator reader accepts it
            use wirm::opcode::Opcode;
            match name {
                "else_stmt" => {
                    fb.if_stmt(wirm::ir::types::BlockType::Empty);
                }
                "end" => {
                    fb.block(wirm::ir::types::BlockType::Empty);
                }
                _ => {}
            }
            c24_table::apply(name, &mut fb, &a2);
            if matches!(name, "block" | "loop_stmt" | "if_stmt" | "else_stmt") {
                fb.end();
            }
            let fid = fb.finish_module(&mut m);
            (*fid, m.encode())
        });
        match r2 {
            Err(p) => out.violate(format!("{}:encode-{}", name, p.sig()), json!({"helper": name, "panic": p.json(), "args": format!("{:?}", a2.u)})),
            Ok((_fid, bytes)) => {
                // last function body of the code section
                let mut last: Option<Vec<wasmparser::Operator>> = None;
                let mut err = None;
                for p in wasmparser::Parser::new(0).parse_all(&bytes) {
                    match p {
                        Ok(wasmparser::Payload::CodeSectionEntry(b)) => match b.get_operators_reader().and_then(|r| r.into_iter().collect::<Result<Vec<_>, _>>()) {
                            Ok(v) => last = Some(v),
                            Err(e) => err = Some(e.to_string()),
                        },
                        Err(e) => err = Some(e.to_string()),
                        _ => {}
                    }
                }
                let (pos, want_len) = match name {
                    "else_stmt" => (1usize, 4usize),
                    "end" => (1, 3),
                    "block" | "loop_stmt" | "if_stmt" => (0, 3),
                    _ => (0, 2),
                };
                match (last, err) {
                    (Some(ops), None) if ops.len() == want_len && matches!(ops[want_len - 1], wasmparser::Operator::End) => match enc_op(&ops[pos]) {
                        Ok(b) if b == exp2 => out.ob("encoded_checked"),
                        Ok(b) => out.violate(
                            format!("{}:encoded-{}", name, if b.first() == exp2.first() && b.get(1) == exp2.get(1) { "immediate-differs" } else { "wrong-opcode" }),
                            json!({"helper": name, "expected": format!("{:?}", expected2), "decoded": format!("{:?}", ops[pos])}),
                        ),
                        Err(e) => out.violate(format!("{}:encoded-unreencodable", name), json!({"helper": name, "error": e})),
                    },
                    (Some(ops), None) => out.violate(
                        format!("{}:encoded-body-shape", name),
                        json!({"helper": name, "decoded": format!("{:?}", ops), "expected": "[<instruction>, end]"}),
                    ),
                    (_, e) => out.violate(format!("{}:encoded-undecodable", name), json!({"helper": name, "error": e})),
                }
            }
        }
        // (c) helpers whose immediate names a function / global / memory, under re-indexing: the helper is used on a builder or
        // injected (before / after / alternate) through a FunctionModifier, an import is added to one of the three index spaces,
        // and the instruction of the encoded module must designate the same item (imports first: items 1, 2 become 2, 3)
        if let Some(kind) = mapped_kind(name) {
            let mut a3 = random_args(&mut rng, Some(kind));
            let pre = ["none", "func", "global", "memory"][rng.below(4)];
            let via = ["builder", "before", "after", "alternate"][rng.below(4)];
            out.ob(format!("reindex:{}-helper/import-added:{}/{}", kind, pre, via));
            let base = base_module();
            let r3 = catch(|| {
                use wirm::ir::id::FunctionID;
                use wirm::ir::types::Location;
                use wirm::opcode::Instrumenter;
                let mut m = wirm::Module::parse(&base, true).expect("parse base");
                let early = rng.bool();
                let mut add = |m: &mut wirm::Module| match pre {
                    "func" => {
                        m.add_import_func("env".into(), "x".into(), wirm::ir::id::TypeID(0));
                    }
                    "global" => {
                        m.add_imported_global("env".into(), "x".into(), wirm::DataType::I32, false, false);
                    }
                    "memory" => {
                        m.add_import_memory("env".into(), "x".into(), wasmparser::MemoryType { memory64: false, shared: false, initial: 1, maximum: None, page_size_log2: None });
                    }
                    _ => {}
                };
                if early {
                    add(&mut m);
                }
                if via == "builder" {
                    let mut fb = FunctionBuilder::new(&[], &[]);
                    c24_table::apply(name, &mut fb, &a3);
                    fb.finish_module(&mut m);
                } else {
                    let mut fm = m.functions.get_fn_modifier(FunctionID(1)).expect("modifier");
                    let loc = Location::Module { func_idx: FunctionID(1), instr_idx: 0 };
                    match via {
                        "before" => fm.before_at(loc),
                        "after" => fm.after_at(loc),
                        _ => fm.alternate_at(loc),
                    };
                    c24_table::apply(name, &mut fm, &a3);
                }
                if !early {
                    add(&mut m);
                }
                m.encode()
            });
            let sh = |x: u32| if x >= 1 { x + 1 } else { x };
            if pre == kind {
                match kind {
                    "func" | "global" => a3.u[0] = sh(a3.u[0]),
                    _ => match name {
                        "memory_init" => a3.u[1] = sh(a3.u[1]),
                        "memory_copy" => {
                            a3.u[0] = sh(a3.u[0]);
                            a3.u[1] = sh(a3.u[1]);
                        }
                        n if n.starts_with("memory_") => a3.u[0] = sh(a3.u[0]),
                        _ => a3.memarg_enc.memory_index = sh(a3.memarg_enc.memory_index),
                    },
                }
            }
            let exp3 = enc(&c24_table::expected(name, &a3).expect("table entry"));
            match r3 {
                Err(p) => out.violate(format!("{}:reindexed-encode-{}", name, p.sig()), json!({"helper": name, "panic": p.json(), "import_added": pre, "via": via})),
                Ok(bytes) => {
                    let mut bodies: Vec<Vec<wasmparser::Operator>> = vec![];
                    for p in wasmparser::Parser::new(0).parse_all(&bytes) {
                        if let Ok(wasmparser::Payload::CodeSectionEntry(b)) = p {
                            if let Ok(v) = b.get_operators_reader().and_then(|r| r.into_iter().collect::<Result<Vec<_>, _>>()) {
                                bodies.push(v);
                            }
                        }
                    }
                    // builder: the last body is [op, end]; modifier: the first body is [op, nop, end] / [nop, op, end] / [op, end]
                    let got = match via {
                        "builder" => bodies.last().filter(|b| b.len() == 2).map(|b| b[0].clone()),
                        "before" => bodies.first().filter(|b| b.len() == 3).map(|b| b[0].clone()),
                        "after" => bodies.first().filter(|b| b.len() == 3).map(|b| b[1].clone()),
                        _ => bodies.first().filter(|b| b.len() == 2).map(|b| b[0].clone()),
                    };
                    match got.as_ref().map(enc_op) {
                        Some(Ok(b)) if b == exp3 => out.ob("reindexed_checked"),
                        Some(Ok(_)) => out.violate(
                            format!("{}:reindexed-immediate-differs|{}-import-added", name, pre),
                            json!({"helper": name, "import_added": pre, "via": via, "expected": format!("{:?}", c24_table::expected(name, &a3)), "decoded": format!("{:?}", got)}),
                        ),
                        _ => out.violate(
                            format!("{}:reindexed-body-shape", name),
                            json!({"helper": name, "import_added": pre, "via": via, "bodies": format!("{:?}", bodies)}),
                        ),
                    }
                }
            }
        }
        if want_sample {
            out.sample = Some(json!({"helper": name, "expected": format!("{:?}", expected), "expected_bytes": hex(&exp_bytes),
                                     "second_draw_expected": format!("{:?}", expected2)}));
        }
        out
    }
}
