use crate::runner::Prop;

pub mod c01;
pub mod c03;
pub mod c13;
pub mod c23;
pub mod c24;
pub mod c27;
pub mod c24_table;
pub mod hist;
pub mod iter;
pub mod lower;
pub mod scen;
pub mod sem;

pub fn all() -> Vec<Box<dyn Prop>> {
    vec![Box::new(c01::C01 { which: 1 }), Box::new(c01::C01 { which: 2 }), Box::new(c03::C03),
        Box::new(hist::Hist { id: "C06" }),
        Box::new(hist::Hist { id: "C07" }),
        Box::new(hist::Hist { id: "C08" }),
        Box::new(hist::Hist { id: "C09" }),
        Box::new(hist::Hist { id: "C10" }),
        Box::new(hist::Hist { id: "C11" }),
        Box::new(hist::Hist { id: "C29" }),
        Box::new(c24::C24),
        Box::new(c13::C13),
        Box::new(sem::Sem { id: "C16" }),
        Box::new(sem::Sem { id: "C17" }),
        Box::new(sem::Sem { id: "C18" }),
        Box::new(sem::Sem { id: "C19" }),
        Box::new(sem::Sem { id: "C20" }),
        Box::new(c27::C27),
        Box::new(c27::C28),
        Box::new(iter::Iter { id: "C25" }),
        Box::new(iter::Iter { id: "C26" }),
        Box::new(lower::Lower { id: "C15" }),
        Box::new(lower::Lower { id: "C21" }),
        Box::new(lower::Lower { id: "C22" }),
        Box::new(hist::Hist { id: "C12" }),
        Box::new(hist::Hist { id: "C14" }),
        Box::new(hist::Hist { id: "C30" }),
        Box::new(c23::C23),
        Box::new(scen::C04),
        Box::new(scen::C05),
    ]
}

pub fn get(id: &str) -> Option<Box<dyn Prop>> {
    all().into_iter().find(|p| p.id() == id)
}
