use crate::runner::Prop;

pub mod c01;
pub mod c03;

pub fn all() -> Vec<Box<dyn Prop>> {
    vec![Box::new(c01::C01 { which: 1 }), Box::new(c01::C01 { which: 2 }), Box::new(c03::C03)]
}

pub fn get(id: &str) -> Option<Box<dyn Prop>> {
    all().into_iter().find(|p| p.id() == id)
}
