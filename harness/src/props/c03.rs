//! C03 — parsing never panics or aborts. Crash monitor over mutated / truncated / spliced /
//! unmodelled-feature binaries. Each input is given to Module::parse and Component::parse
//! with both flag values; a panic (caught) or a dead worker process (signal) is a violation.

use crate::fixtures;
use crate::gen::{self, GenCfg};
use crate::rng::{fnv, Rng};
use crate::runner::{catch, CaseOut, Prop, Tier};
use serde_json::json;

pub struct C03;

fn leb(mut n: u64, out: &mut Vec<u8>) {
    loop {
        let mut b = (n & 0x7f) as u8;
        n >>= 7;
        if n != 0 {
            b |= 0x80;
        }
        out.push(b);
        if n == 0 {
            break;
        }
    }
}
fn leb_overlong(mut n: u64, width: usize, out: &mut Vec<u8>) {
    for i in 0..width {
        let mut b = (n & 0x7f) as u8;
        n >>= 7;
        if i + 1 < width {
            b |= 0x80;
        }
        out.push(b);
    }
}
fn read_leb(b: &[u8], pos: &mut usize) -> Option<u64> {
    let mut r = 0u64;
    let mut shift = 0;
    loop {
        let x = *b.get(*pos)?;
        *pos += 1;
        r |= ((x & 0x7f) as u64) << shift;
        if x & 0x80 == 0 {
            return Some(r);
        }
        shift += 7;
        if shift > 63 {
            return None;
        }
    }
}

/// split a (valid) binary into header + sections
pub fn split(bytes: &[u8]) -> Option<(Vec<u8>, Vec<(u8, Vec<u8>)>)> {
    if bytes.len() < 8 {
        return None;
    }
    let mut pos = 8;
    let mut secs = vec![];
    while pos < bytes.len() {
        let id = bytes[pos];
        pos += 1;
        let n = read_leb(bytes, &mut pos)? as usize;
        if pos + n > bytes.len() {
            return None;
        }
        secs.push((id, bytes[pos..pos + n].to_vec()));
        pos += n;
    }
    Some((bytes[..8].to_vec(), secs))
}
pub fn join(header: &[u8], secs: &[(u8, Vec<u8>)]) -> Vec<u8> {
    let mut out = header.to_vec();
    for (id, body) in secs {
        out.push(*id);
        leb(body.len() as u64, &mut out);
        out.extend_from_slice(body);
    }
    out
}

fn custom(name: &str, data: &[u8]) -> (u8, Vec<u8>) {
    let mut b = vec![];
    leb(name.len() as u64, &mut b);
    b.extend_from_slice(name.as_bytes());
    b.extend_from_slice(data);
    (0, b)
}

/// hand-made inputs for features / shapes the IR does not model
fn specials() -> &'static Vec<(&'static str, Vec<u8>)> {
    static S: std::sync::OnceLock<Vec<(&'static str, Vec<u8>)>> = std::sync::OnceLock::new();
    S.get_or_init(build_specials)
}

fn build_specials() -> Vec<(&'static str, Vec<u8>)> {
    let hdr = vec![0x00, 0x61, 0x73, 0x6d, 0x01, 0x00, 0x00, 0x00];
    let chdr = vec![0x00, 0x61, 0x73, 0x6d, 0x0d, 0x00, 0x01, 0x00];
    let mut v: Vec<(&'static str, Vec<u8>)> = vec![];
    // extended-const global initialiser: i32.const 1 i32.const 2 i32.add
    v.push(("extended-const-global", join(&hdr, &[(6, vec![1, 0x7f, 0, 0x41, 1, 0x41, 2, 0x6a, 0x0b])])));
    // extended-const data offset
    v.push((
        "extended-const-data-offset",
        join(&hdr, &[(5, vec![1, 0, 1]), (11, vec![1, 0, 0x41, 1, 0x41, 2, 0x6a, 0x0b, 1, 0xaa])]),
    ));
    // non-constant instruction in an initialiser
    v.push(("nonconst-global-init", join(&hdr, &[(6, vec![1, 0x7f, 0, 0x01, 0x0b])])));
    v.push(("global-init-without-end", join(&hdr, &[(6, vec![1, 0x7f, 0, 0x41, 1])])));
    v.push(("global-init-trailing", join(&hdr, &[(6, vec![1, 0x7f, 0, 0x41, 1, 0x0b, 0x0b])])));
    // empty producers section, producers with bad field
    v.push(("empty-producers", join(&hdr, &[custom("producers", &[0])])));
    v.push(("producers-no-count", join(&hdr, &[custom("producers", &[])])));
    v.push(("producers-bad-field", join(&hdr, &[custom("producers", &[1, 3, b'a'])])));
    v.push(("producers-bad-values", join(&hdr, &[custom("producers", &[1, 1, b'a', 5, 1])])));
    // name section before code, naming a function that has no body yet
    v.push((
        "name-before-code",
        join(&hdr, &[(1, vec![1, 0x60, 0, 0]), (3, vec![1, 0]), custom("name", &[1, 4, 1, 0, 1, b'f']), (10, vec![1, 2, 0, 0x0b])]),
    ));
    v.push(("name-func-out-of-range", join(&hdr, &[custom("name", &[1, 4, 1, 9, 1, b'f'])])));
    v.push(("name-bad-map", join(&hdr, &[custom("name", &[1, 4, 5, 9, 1, b'f'])])));
    v.push(("name-local-bad", join(&hdr, &[custom("name", &[2, 3, 1, 0, 7])])));
    // function type index out of range
    v.push(("func-type-oob", join(&hdr, &[(1, vec![1, 0x60, 0, 0]), (3, vec![1, 7]), (10, vec![1, 2, 0, 0x0b])])));
    v.push(("func-without-types", join(&hdr, &[(3, vec![1, 0]), (10, vec![1, 2, 0, 0x0b])])));
    // import func type out of range
    v.push(("import-type-oob", join(&hdr, &[(2, vec![1, 1, b'm', 1, b'f', 0, 9])])));
    // two start sections
    v.push(("two-start", join(&hdr, &[(1, vec![1, 0x60, 0, 0]), (3, vec![1, 0]), (8, vec![0]), (8, vec![0]), (10, vec![1, 2, 0, 0x0b])])));
    // tag section with bad attribute / truncated
    v.push(("tag-bad-attr", join(&hdr, &[(1, vec![1, 0x60, 0, 0]), (13, vec![1, 7, 0])])));
    v.push(("tag-truncated", join(&hdr, &[(13, vec![2, 0, 0])])));
    // stack-switching cont type
    v.push(("cont-type", join(&hdr, &[(1, vec![2, 0x60, 0, 0, 0x5d, 0])])));
    // unknown section id, section 14+
    v.push(("unknown-section", join(&hdr, &[(0x7f, vec![1, 2, 3])])));
    v.push(("section-14", join(&hdr, &[(14, vec![0])])));
    // code body without end
    v.push(("body-no-end", join(&hdr, &[(1, vec![1, 0x60, 0, 0]), (3, vec![1, 0]), (10, vec![1, 2, 0, 0x01])])));
    v.push(("body-empty", join(&hdr, &[(1, vec![1, 0x60, 0, 0]), (3, vec![1, 0]), (10, vec![1, 1, 0])])));
    // huge local count
    v.push(("huge-locals", join(&hdr, &[(1, vec![1, 0x60, 0, 0]), (3, vec![1, 0]), (10, vec![1, 8, 1, 0xff, 0xff, 0xff, 0xff, 0x0f, 0x7f, 0x0b])])));
    // data count mismatch
    v.push(("datacount-mismatch", join(&hdr, &[(12, vec![3])])));
    // element segment with bad flags / expressions
    v.push(("elem-bad-flag", join(&hdr, &[(9, vec![1, 9])])));
    v.push(("elem-expr-nonconst", join(&hdr, &[(4, vec![1, 0x70, 0, 1]), (9, vec![1, 4, 0x41, 0, 0x0b, 1, 0x01, 0x0b])])));
    // table with init expression that is not constant
    v.push(("table-init-nonconst", join(&hdr, &[(4, vec![1, 0x40, 0x00, 0x70, 0, 1, 0x01, 0x0b])])));
    // module bytes handed to the component parser and vice versa
    v.push(("component-empty", chdr.clone()));
    v.push(("component-with-core-sections", join(&chdr, &[(1, vec![1, 0x60, 0, 0])])));
    // component containing a truncated module section
    v.push(("component-trunc-module", join(&chdr, &[(1, vec![0x00, 0x61, 0x73, 0x6d, 0x01, 0x00])])));
    // component with a component-name section that is malformed
    v.push(("component-bad-name", join(&chdr, &[custom("component-name", &[0, 9, 1])])));
    v.push(("component-unknown-section", join(&chdr, &[(0x33, vec![1])])));
    // bad version / layer
    v.push(("bad-version", vec![0x00, 0x61, 0x73, 0x6d, 0x02, 0x00, 0x00, 0x00]));
    v.push(("bad-layer", vec![0x00, 0x61, 0x73, 0x6d, 0x0d, 0x00, 0x02, 0x00]));
    v.push(("only-magic", vec![0x00, 0x61, 0x73, 0x6d]));
    v.push(("empty", vec![]));
    // legacy exceptions: try ... catch
    v.push((
        "legacy-try",
        join(&hdr, &[(1, vec![1, 0x60, 0, 0]), (3, vec![1, 0]), (10, vec![1, 6, 0, 0x06, 0x40, 0x19, 0x0b, 0x0b])]),
    ));
    // wide arithmetic
    v.push((
        "wide-arith",
        join(&hdr, &[(1, vec![1, 0x60, 0, 0]), (3, vec![1, 0]), (10, vec![1, 5, 0, 0xfc, 0x13, 0x00, 0x0b])]),
    ));
    // shared-everything: global.atomic.get
    v.push((
        "global-atomic",
        join(&hdr, &[(1, vec![1, 0x60, 0, 0]), (3, vec![1, 0]), (10, vec![1, 7, 0, 0xfe, 0x4f, 0x00, 0x00, 0x1a, 0x0b])]),
    ));
    v.push(("nested-4096", nested_components(4096, false)));
    v.push(("nested-4096-with-modules", nested_components(4096, true)));
    v
}

fn nested_components(depth: usize, with_module: bool) -> Vec<u8> {
    let chdr = [0x00, 0x61, 0x73, 0x6d, 0x0d, 0x00, 0x01, 0x00];
    let mhdr = [0x00, 0x61, 0x73, 0x6d, 0x01, 0x00, 0x00, 0x00];
    let mut inner: Vec<u8> = chdr.to_vec();
    if with_module {
        inner = join(&chdr, &[(1, mhdr.to_vec())]);
    }
    for _ in 0..depth {
        let mut secs = vec![(4u8, inner.clone())];
        if with_module {
            secs.push((1, mhdr.to_vec()));
        }
        inner = join(&chdr, &secs);
    }
    inner
}

fn mutate(rng: &mut Rng, base: &[u8], donor: &[u8], log: &mut Vec<String>) -> Vec<u8> {
    let mut b = base.to_vec();
    let k = rng.below(14);
    match k {
        0 | 1 => {
            if !b.is_empty() {
                let n = rng.range(1, 3);
                for _ in 0..n {
                    let p = rng.below(b.len());
                    b[p] = match rng.below(6) {
                        0 => 0,
                        1 => 0xff,
                        2 => 0x80,
                        3 => 0x7f,
                        4 => b[p] ^ (1 << rng.below(8)),
                        _ => rng.next_u32() as u8,
                    };
                    log.push(format!("byte@{}", p));
                }
            }
        }
        2 => {
            if b.len() > 8 {
                let p = rng.range(8, b.len() - 1);
                b.truncate(p);
                log.push(format!("truncate@{}", p));
            }
        }
        3 => {
            // truncate at a section boundary +-1
            if let Some((_, secs)) = split(&b) {
                if !secs.is_empty() {
                    let upto = rng.below(secs.len());
                    let mut pos = 8;
                    let mut tmp = vec![];
                    for (_, body) in secs.iter().take(upto + 1) {
                        tmp.clear();
                        leb(body.len() as u64, &mut tmp);
                        pos += 1 + tmp.len() + body.len();
                    }
                    let p = (pos as i64 + rng.below(3) as i64 - 1).clamp(0, b.len() as i64) as usize;
                    b.truncate(p);
                    log.push(format!("truncate-boundary@{}", p));
                }
            }
        }
        4 | 5 | 6 | 7 | 8 => {
            if let Some((h, mut secs)) = split(&b) {
                if !secs.is_empty() {
                    let i = rng.below(secs.len());
                    match k {
                        4 => {
                            let s = secs[i].clone();
                            let j = rng.below(secs.len() + 1);
                            secs.insert(j, s);
                            log.push(format!("dup-section {}→{}", i, j));
                        }
                        5 => {
                            let id = secs[i].0;
                            secs.remove(i);
                            log.push(format!("remove-section id{}", id));
                        }
                        6 => {
                            let j = rng.below(secs.len());
                            secs.swap(i, j);
                            log.push(format!("swap-sections {}<->{}", i, j));
                        }
                        7 => {
                            // rewrite the leading count of a section body
                            let mut pos = 0;
                            if let Some(n) = read_leb(&secs[i].1, &mut pos) {
                                let newn = match rng.below(4) {
                                    0 => n + 1,
                                    1 => n.saturating_sub(1),
                                    2 => 0xffff_ffff,
                                    _ => rng.below(300) as u64,
                                };
                                let mut nb = vec![];
                                if rng.bool() {
                                    leb(newn, &mut nb)
                                } else {
                                    leb_overlong(newn, 5, &mut nb)
                                }
                                nb.extend_from_slice(&secs[i].1[pos..]);
                                secs[i].1 = nb;
                                log.push(format!("count id{} {}→{}", secs[i].0, n, newn));
                            }
                        }
                        _ => {
                            // splice a section from the donor
                            if let Some((_, dsecs)) = split(donor) {
                                if !dsecs.is_empty() {
                                    let d = rng.pick(&dsecs).clone();
                                    log.push(format!("splice id{} at {}", d.0, i));
                                    if rng.bool() {
                                        secs[i] = d;
                                    } else {
                                        secs.insert(i, d);
                                    }
                                }
                            }
                        }
                    }
                    b = join(&h, &secs);
                }
            }
        }
        9 => {
            // wrong section size
            if let Some((h, secs)) = split(&b) {
                if !secs.is_empty() {
                    let i = rng.below(secs.len());
                    let mut out = h.clone();
                    for (j, (id, body)) in secs.iter().enumerate() {
                        out.push(*id);
                        if j == i {
                            let n = match rng.below(3) {
                                0 => body.len() as u64 + 1,
                                1 => (body.len() as u64).saturating_sub(1),
                                _ => 0xffff_fff0,
                            };
                            leb_overlong(n, 5, &mut out);
                            log.push(format!("size id{} {}→{}", id, body.len(), n));
                        } else {
                            leb(body.len() as u64, &mut out);
                        }
                        out.extend_from_slice(body);
                    }
                    b = out;
                }
            }
        }
        10 => {
            // move the name section (or any custom) to the front
            if let Some((h, mut secs)) = split(&b) {
                if let Some(i) = secs.iter().position(|(id, _)| *id == 0) {
                    let s = secs.remove(i);
                    secs.insert(0, s);
                    b = join(&h, &secs);
                    log.push("custom-to-front".into());
                }
            }
        }
        11 => {
            // insert random bytes
            let p = rng.below(b.len() + 1);
            let n = rng.range(1, 6);
            let ins = rng.bytes(n);
            b.splice(p..p, ins);
            log.push(format!("insert {}@{}", n, p));
        }
        12 => {
            // flip the layer: module <-> component header
            if b.len() >= 8 {
                if b[4] == 1 {
                    b[4..8].copy_from_slice(&[0x0d, 0, 1, 0]);
                } else {
                    b[4..8].copy_from_slice(&[1, 0, 0, 0]);
                }
                log.push("flip-layer".into());
            }
        }
        _ => {
            // replace an `end` of an initialiser with something else: find 0x0b in global/elem/data sections
            if let Some((h, mut secs)) = split(&b) {
                let cands: Vec<usize> =
                    secs.iter().enumerate().filter(|(_, (id, _))| matches!(id, 4 | 6 | 9 | 11)).map(|(i, _)| i).collect();
                if !cands.is_empty() {
                    let i = *rng.pick(&cands);
                    let ends: Vec<usize> = secs[i].1.iter().enumerate().filter(|(_, x)| **x == 0x0b).map(|(p, _)| p).collect();
                    if !ends.is_empty() {
                        let p = *rng.pick(&ends);
                        let repl: &[u8] = match rng.below(11) {
                            0 => &[0x41, 1, 0x6a, 0x0b],
                            1 => &[0x01, 0x0b],
                            2 => &[0x0b, 0x0b],
                            3 => &[0x23, 0x7f, 0x0b],
                            4 => &[0xd2, 0x7f, 0x0b],
                            // extended-const arithmetic on extreme operands (i32 / i64 MAX and MIN): a constant folder must wrap, not overflow
                            5 => &[0x41, 0xff, 0xff, 0xff, 0xff, 0x07, 0x6a, 0x0b],
                            6 => &[0x41, 0x80, 0x80, 0x80, 0x80, 0x78, 0x6b, 0x0b],
                            7 => &[0x41, 0xff, 0xff, 0xff, 0xff, 0x07, 0x6c, 0x0b],
                            8 => &[0x42, 0xff, 0xff, 0xff, 0xff, 0xff, 0xff, 0xff, 0xff, 0xff, 0x00, 0x7c, 0x0b],
                            9 => &[0x42, 0x80, 0x80, 0x80, 0x80, 0x80, 0x80, 0x80, 0x80, 0x80, 0x7f, 0x7d, 0x0b],
                            _ => &[0x42, 0xff, 0xff, 0xff, 0xff, 0xff, 0xff, 0xff, 0xff, 0xff, 0x00, 0x7e, 0x0b],
                        };
                        secs[i].1.splice(p..p + 1, repl.iter().cloned());
                        log.push(format!("initexpr id{}@{}", secs[i].0, p));
                        b = join(&h, &secs);
                    }
                }
            }
        }
    }
    b
}

pub fn probe(bytes: &[u8], out: &mut CaseOut, input_name: &str, mutation_log: &[String]) {
    for (entry, mm) in [("Module::parse", false), ("Module::parse", true), ("Component::parse", false), ("Component::parse", true)] {
        let r = catch(|| {
            if entry == "Module::parse" {
                match wirm::Module::parse(bytes, mm) {
                    Ok(_) => 0,
                    Err(_) => 1,
                }
            } else {
                match wirm::Component::parse(bytes, mm) {
                    Ok(_) => 0,
                    Err(_) => 1,
                }
            }
        });
        match r {
            Ok(0) => out.ob(format!("{}:ok", entry)),
            Ok(_) => out.ob(format!("{}:err", entry)),
            Err(p) => {
                out.ob(format!("{}:panic", entry));
                out.violate(
                    format!("{}:{}", entry, p.sig()),
                    json!({"input": input_name, "mutations": mutation_log, "panic": p.json(), "multi_memory": mm,
                           "hex": hex_head(bytes), "len": bytes.len()}),
                );
            }
        }
    }
}

fn hex_head(b: &[u8]) -> String {
    let mut s = String::new();
    for x in b.iter().take(600) {
        s.push_str(&format!("{:02x}", x));
    }
    if b.len() > 600 {
        s.push_str("...");
    }
    s
}

pub fn hex_decode(s: &str) -> Option<Vec<u8>> {
    let s = s.trim_end_matches("...");
    let mut out = vec![];
    let c: Vec<char> = s.chars().collect();
    for p in c.chunks(2) {
        if p.len() != 2 {
            return None;
        }
        out.push(u8::from_str_radix(&p.iter().collect::<String>(), 16).ok()?);
    }
    Some(out)
}

impl Prop for C03 {
    fn id(&self) -> &'static str {
        "C03"
    }
    fn cases(&self, tier: Tier) -> u64 {
        match tier {
            Tier::Quick => 400_000,
            Tier::Thorough => 8_000_000,
        }
    }
    fn rule(&self) -> String {
        "case idx → base (generated module of any profile / generated component / fixture module or component / assert_malformed \
         and assert_invalid payloads of the .wast corpus / hand-made unmodelled-feature binaries / nested components of depth up to 4096) \
         + 0..3 mutations (byte set/flip, truncation, section dup/remove/swap/splice, count and size LEB rewriting incl. overlong, \
         custom-to-front, layer flip, initialiser opcode substitution). Each input is given to Module::parse and Component::parse with \
         both flag values inside catch_unwind in a child process. Non-trivial = the input keeps the 8-byte header and differs from a \
         valid base (or is a hostile fixture); distinct = FNV of the input bytes."
            .into()
    }
    fn assumptions(&self) -> Vec<String> {
        vec![
            "a panic is observed through catch_unwind + panic hook; aborts/stack overflows through the child's exit status".into(),
            "hitting the memory/time limit is inconclusive, not a violation".into(),
        ]
    }
    fn anchors(&self) -> Vec<&'static str> {
        vec!["init_expr.eval", "parse_comp.module"]
    }
    fn time_cap(&self, tier: Tier) -> u64 {
        match tier {
            Tier::Quick => 60,
            Tier::Thorough => 900,
        }
    }
    /// thorough tier: ASan + libFuzzer sub-engine (see fuzz/fuzz_targets/parse.rs)
    fn post(&self, seed: u64, tier: Tier, m: &mut crate::runner::Merged) {
        if tier != Tier::Thorough {
            return;
        }
        let secs: u64 = std::env::var("VERIF_C03_FUZZ_SECS").ok().and_then(|s| s.parse().ok()).unwrap_or(600);
        if secs == 0 {
            m.extra.insert("fuzz_sub_engine".into(), json!("skipped (VERIF_C03_FUZZ_SECS=0)"));
            return;
        }
        let r = fuzz_sub_engine(seed, secs, m);
        m.extra.insert("fuzz_sub_engine".into(), r);
    }
    fn run_witness(&self, w: &serde_json::Value) -> Option<CaseOut> {
        if let Some(h) = w["hex"].as_str() {
            let bytes = hex_decode(h)?;
            let mut out = CaseOut::default();
            probe(&bytes, &mut out, "witness", &[]);
            return Some(out);
        }
        if let Some(name) = w["special"].as_str() {
            let (_, bytes) = specials().iter().find(|(n, _)| *n == name)?.clone();
            let mut out = CaseOut::default();
            probe(&bytes, &mut out, name, &[]);
            return Some(out);
        }
        match (w["seed"].as_u64(), w["idx"].as_u64()) {
            (Some(s), Some(i)) => Some(self.run_case(s, i, false)),
            _ => None,
        }
    }
    fn run_case(&self, seed: u64, idx: u64, want_sample: bool) -> CaseOut {
        let mut out = CaseOut::default();
        let mut rng = Rng::for_case(seed, "C03", idx);
        let c = fixtures::corpus();
        let sp = specials();
        let mut log: Vec<String> = vec![];
        let kind = idx % 16;
        let (name, base, hostile): (String, Vec<u8>, bool) = if (idx as usize) < sp.len() {
            (format!("special:{}", sp[idx as usize].0), sp[idx as usize].1.clone(), true)
        } else if (idx as usize) < sp.len() + 12 {
            let k = idx as usize - sp.len();
            let depth = [1, 2, 3, 4, 8, 64, 256, 1024, 4096, 3, 64, 1024][k];
            (format!("nested-components:{}:{}", depth, k >= 9), nested_components(depth, k >= 9), true)
        } else if kind == 15 && !c.hostile.is_empty() {
            let f = &c.hostile[rng.below(c.hostile.len())];
            (format!("hostile-fixture:{}", f.name), f.bytes.clone(), true)
        } else if kind == 14 && !c.valid_components.is_empty() {
            let f = &c.valid_components[rng.below(c.valid_components.len())];
            (format!("fixture-component:{}", f.name), f.bytes.clone(), false)
        } else if kind == 13 && !c.valid_modules.is_empty() {
            let f = &c.valid_modules[rng.below(c.valid_modules.len())];
            (format!("fixture-module:{}", f.name), f.bytes.clone(), false)
        } else if kind == 12 {
            let b = crate::gencomp::generate(&mut rng, 3).bytes;
            ("gen-component".to_string(), b, false)
        } else if kind == 11 {
            let s = rng.pick(sp);
            (format!("special:{}", s.0), s.1.clone(), true)
        } else {
            let prof = gen::PROFILES[rng.below(gen::PROFILES.len())];
            let cfg = GenCfg::default_for(&mut rng);
            let g = gen::generate(&mut rng, prof, &cfg);
            (format!("gen:{}", prof.name), g.bytes, false)
        };
        out.ob(format!("base:{}", name.split(':').next().unwrap_or("")));
        let donor = {
            let prof = gen::PROFILES[rng.below(gen::PROFILES.len())];
            let cfg = GenCfg::default_for(&mut rng);
            gen::generate(&mut rng, prof, &cfg).bytes
        };
        let nmut = if hostile { rng.below(2) } else { rng.range(1, 3) };
        let mut bytes = base.clone();
        for _ in 0..nmut {
            bytes = mutate(&mut rng, &bytes, &donor, &mut log);
        }
        for l in &log {
            out.ob(format!("mutation:{}", l.split(|c: char| !c.is_alphabetic() && c != '-').next().unwrap_or("")));
        }
        out.fp = fnv(&bytes);
        out.nontrivial = bytes.len() >= 8 && bytes[..4] == [0, 0x61, 0x73, 0x6d] && (hostile || bytes != base);
        if bytes.len() > 3_000_000 {
            out.inconclusive = Some("input too large".into());
            return out;
        }
        probe(&bytes, &mut out, &name, &log);
        if want_sample {
            out.sample = Some(json!({"base": name, "mutations": log, "len": bytes.len(), "hex_head": hex_head(&bytes[..bytes.len().min(64)])}));
        }
        out
    }
}

// ------------------------------------------------------------------------------------
// ASan + libFuzzer sub-engine (thorough tier)

/// child entry point: `harness c03one <file>`: the file is a fuzzer artefact (flag byte + input); prints one line per
/// violation signature. A stack overflow / abort kills this child, which the parent sees as a signal.
pub fn child_one(path: &str) {
    crate::runner::install_panic_hook();
    let data = std::fs::read(path).unwrap_or_default();
    if data.is_empty() {
        return;
    }
    let mut out = CaseOut::default();
    probe(&data[1..], &mut out, "fuzz-artefact", &[]);
    for v in out.violations {
        println!("SIG {}", v.sig);
    }
}

fn fuzz_sub_engine(seed: u64, secs: u64, m: &mut crate::runner::Merged) -> serde_json::Value {
    use std::process::{Command, Stdio};
    let vd = std::env::var("VERIF_DIR").unwrap_or_else(|_| "/verif".into());
    let work = format!("{}/out/fuzz", vd);
    let corpus = format!("{}/corpus", work);
    let arts = format!("{}/artifacts/", work);
    let _ = std::fs::remove_dir_all(&work);
    let _ = std::fs::create_dir_all(&corpus);
    let _ = std::fs::create_dir_all(&arts);
    // seed corpus: generated modules of every profile, generated components, the hand-made hostile inputs
    let mut n = 0;
    for k in 0..360u64 {
        let mut rng = Rng::for_case(seed, "C03-fuzz-corpus", k);
        let (tagbyte, bytes) = if k % 6 == 5 {
            (2u8 | (k as u8 & 1), crate::gencomp::generate(&mut rng, 3).bytes)
        } else {
            let prof = gen::PROFILES[(k as usize) % gen::PROFILES.len()];
            let mut cfg = GenCfg::default_for(&mut rng);
            cfg.max_funcs = cfg.max_funcs.min(3);
            cfg.max_stmts = cfg.max_stmts.min(8);
            (k as u8 & 1, gen::generate(&mut rng, prof, &cfg).bytes)
        };
        let mut d = vec![tagbyte];
        d.extend(bytes);
        if d.len() < 6000 && std::fs::write(format!("{}/seed-{:04}", corpus, k), d).is_ok() {
            n += 1;
        }
    }
    for (i, (_, b)) in specials().iter().enumerate() {
        for t in 0..4u8 {
            let mut d = vec![t];
            d.extend(b.iter().take(6000));
            let _ = std::fs::write(format!("{}/special-{:03}-{}", corpus, i, t), d);
            n += 1;
        }
    }
    let log_path = format!("{}/fuzz.log", work);
    let log = match std::fs::File::create(&log_path) {
        Ok(f) => f,
        Err(e) => return json!({"status": format!("inconclusive: cannot create log: {}", e)}),
    };
    let log2 = log.try_clone().unwrap();
    let t0 = std::time::Instant::now();
    let st = Command::new("cargo")
        .args(["+nightly", "fuzz", "run", "--fuzz-dir", &format!("{}/fuzz", vd), "parse", &corpus, "--"])
        .args([
            &format!("-seed={}", seed),
            &format!("-max_total_time={}", secs),
            "-timeout=10",
            "-fork=16",
            "-ignore_crashes=1",
            "-ignore_timeouts=1",
            "-ignore_ooms=1",
            "-rss_limit_mb=3000",
            "-max_len=8192",
            &format!("-artifact_prefix={}", arts),
        ])
        .env("CARGO_NET_OFFLINE", "true")
        .env_remove("RUSTFLAGS")
        .stdin(Stdio::null())
        .stdout(Stdio::from(log))
        .stderr(Stdio::from(log2))
        .status();
    let text = std::fs::read_to_string(&log_path).unwrap_or_default();
    let built = text.contains("INFO: Running with entropic") || text.contains("INFO: -fork=") || text.contains("cov:");
    if !built {
        let tail: String = text.lines().rev().take(6).collect::<Vec<_>>().into_iter().rev().collect::<Vec<_>>().join(" | ");
        return json!({"status": format!("inconclusive: fuzz target did not start ({:?}): {}", st.map(|s| s.code()), tail.chars().take(400).collect::<String>())});
    }
    // last progress line of fork mode: "#123456: cov: 1234 ft: 5678 corp: 910 exec/s: 1112 oom/timeout/crash: 0/0/3 time: 60s job: 9 dft_time: 0"
    let mut stats = json!({});
    for l in text.lines().rev() {
        if l.starts_with('#') && l.contains("cov:") {
            let grab = |key: &str| l.split(key).nth(1).and_then(|r| r.trim().split(' ').next()).map(|s| s.to_string());
            stats = json!({"executions": l[1..].split(':').next().and_then(|x| x.trim().parse::<u64>().ok()), "cov_edges": grab("cov:"), "features": grab("ft:"),
                           "corpus": grab("corp:"), "oom/timeout/crash": grab("oom/timeout/crash:"), "last_line": l});
            break;
        }
    }
    // classify artefacts through the stable harness, one child per artefact
    let exe = std::env::current_exe().expect("current_exe");
    let mut crashes = 0u64;
    let mut inconclusive = 0u64;
    let mut not_reproduced = 0u64;
    let mut files: Vec<String> = std::fs::read_dir(&arts).map(|d| d.filter_map(|e| e.ok()).map(|e| e.path().display().to_string()).collect()).unwrap_or_default();
    files.sort();
    for f in files.iter().take(400) {
        let base = f.rsplit('/').next().unwrap_or("");
        if base.starts_with("oom-") || base.starts_with("timeout-") || base.starts_with("slow-unit-") {
            inconclusive += 1;
            continue;
        }
        if !base.starts_with("crash-") && !base.starts_with("leak-") {
            continue;
        }
        crashes += 1;
        let o = Command::new(&exe).arg("c03one").arg(f).stdin(Stdio::null()).stderr(Stdio::null()).output();
        let hex = std::fs::read(f).map(|b| hex_head(&b[1.min(b.len())..])).unwrap_or_default();
        match o {
            Ok(o) if o.status.success() => {
                let sigs: Vec<String> = String::from_utf8_lossy(&o.stdout).lines().filter_map(|l| l.strip_prefix("SIG ").map(|s| s.to_string())).collect();
                if sigs.is_empty() {
                    // the fuzz build (ASan, debug assertions) crashed, the stable build does not: keep the artefact, report as its own signature
                    not_reproduced += 1;
                    m.violations.push((0, "fuzz-build-only-crash (see artefact)".into(), json!({"artefact": f, "hex": hex, "note": "sanitizer / fuzz-build crash that the stable harness does not reproduce; read out/fuzz/fuzz.log"})));
                }
                for s in sigs {
                    m.violations.push((0, s, json!({"artefact": f, "hex": hex, "found_by": "libFuzzer+ASan"})));
                }
            }
            Ok(o) => {
                use std::os::unix::process::ExitStatusExt;
                m.violations.push((0, format!("abort:signal:{}", o.status.signal().unwrap_or(0)), json!({"artefact": f, "hex": hex, "found_by": "libFuzzer+ASan"})));
            }
            Err(_) => inconclusive += 1,
        }
    }
    m.evaluations += stats["executions"].as_u64().unwrap_or(0);
    json!({"status": "ran", "seconds": t0.elapsed().as_secs(), "seed_corpus": n, "stats": stats, "crash_artefacts": crashes, "replayed_in_stable_harness": crashes,
           "oom_or_timeout_artefacts(inconclusive)": inconclusive, "fuzz_build_only": not_reproduced,
           "sanitizer": "AddressSanitizer (cargo fuzz default), debug assertions on"})
}
