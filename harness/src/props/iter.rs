//! C25 — the module iterator visits every instruction of every non-skipped local function
//! exactly once, in order; C26 — the component iterator behaves like per-module iterators
//! and injections through it produce the same modules.

use crate::gen::{self, GenCfg};
use crate::gencomp;
use crate::props::lower::{self, Inj, Mode, Path};
use crate::rng::{fnv, fnv_mix, Rng};
use crate::runner::{catch, CaseOut, Prop, Tier};
use crate::sym;
use serde_json::json;
use std::collections::HashMap;
use wirm::ir::id::{FunctionID, ModuleID};
use wirm::ir::types::Location;
use wirm::iterator::component_iterator::ComponentIterator;
use wirm::iterator::iterator_trait::Iterator as WI;
use wirm::iterator::module_iterator::ModuleIterator;

pub struct Iter {
    pub id: &'static str,
}

/// (module idx, func idx, instr idx, is_end flag, op bytes)
type Visit = (u32, u32, usize, bool, Vec<u8>);

fn expected_visits(raw: &sym::RawModule, mod_idx: u32, skip: &[u32]) -> Vec<Visit> {
    let mut v = vec![];
    for (k, f) in raw.funcs.iter().enumerate() {
        let fid = raw.n_imp_funcs + k as u32;
        if skip.contains(&fid) {
            continue;
        }
        for (i, op) in f.ops.iter().enumerate() {
            v.push((mod_idx, fid, i, i + 1 == f.ops.len(), op.bytes.clone()));
        }
    }
    v
}

fn op_bytes(op: &wasmparser::Operator) -> Vec<u8> {
    sym::sym_op(op).map(|s| s.bytes).unwrap_or_default()
}

const MAX_STEPS: usize = 200_000;

fn walk_module(it: &mut ModuleIterator) -> Vec<Visit> {
    let mut seq = vec![];
    loop {
        let op = match it.curr_op() {
            Some(op) => op_bytes(op),
            None => break,
        };
        let (loc, is_end) = it.curr_loc();
        if let Location::Module { func_idx, instr_idx } = loc {
            seq.push((0, *func_idx, instr_idx, is_end, op));
        }
        if seq.len() > MAX_STEPS || it.next().is_none() {
            break;
        }
    }
    seq
}
fn walk_component(it: &mut ComponentIterator) -> Vec<Visit> {
    let mut seq = vec![];
    loop {
        let op = match it.curr_op() {
            Some(op) => op_bytes(op),
            None => break,
        };
        let (loc, is_end) = it.curr_loc();
        if let Location::Component { mod_idx, func_idx, instr_idx } = loc {
            seq.push((*mod_idx, *func_idx, instr_idx, is_end, op));
        }
        if seq.len() > MAX_STEPS || it.next().is_none() {
            break;
        }
    }
    seq
}

fn diff_visits(exp: &[Visit], got: &[Visit]) -> Option<(String, serde_json::Value)> {
    if exp == got {
        return None;
    }
    let show = |v: Option<&Visit>| v.map(|x| format!("mod {} func {} instr {} end={} op={:02x?}", x.0, x.1, x.2, x.3, x.4));
    for i in 0..exp.len().max(got.len()) {
        if exp.get(i) != got.get(i) {
            let kind = match (exp.get(i), got.get(i)) {
                (Some(_), None) => "missing-visits",
                (None, Some(_)) => "extra-visits",
                (Some(a), Some(b)) if a.0 == b.0 && a.1 == b.1 && a.2 == b.2 && a.4 == b.4 => "flag-wrong",
                _ => "wrong-visit",
            };
            return Some((
                kind.to_string(),
                json!({"position": i, "expected": show(exp.get(i)), "observed": show(got.get(i)), "expected_len": exp.len(), "observed_len": got.len()}),
            ));
        }
    }
    None
}

fn skip_shape(skip: &[u32], locals: &[u32], n_imp: u32) -> &'static str {
    if skip.is_empty() {
        return "none";
    }
    let local_skips: Vec<u32> = skip.iter().cloned().filter(|s| locals.contains(s)).collect();
    if local_skips.is_empty() {
        return if skip.iter().any(|s| *s < n_imp) { "imports-only" } else { "unknown-ids-only" };
    }
    if local_skips.len() == locals.len() {
        return "all";
    }
    let first = locals.first().map(|f| local_skips.contains(f)).unwrap_or(false);
    let last = locals.last().map(|f| local_skips.contains(f)).unwrap_or(false);
    match (first, last) {
        (true, true) => "first+last",
        (true, false) => "first",
        (false, true) => "trailing",
        _ => "middle",
    }
}

fn random_skip(rng: &mut Rng, locals: &[u32], n_imp: u32) -> Vec<u32> {
    let mut skip = vec![];
    match rng.below(9) {
        0 => {}
        1 => {
            if let Some(f) = locals.first() {
                skip.push(*f)
            }
        }
        2 => {
            if let Some(f) = locals.last() {
                skip.push(*f)
            }
        }
        3 => {
            // trailing run
            let n = rng.below(locals.len() + 1);
            skip.extend(locals.iter().rev().take(n));
        }
        4 => skip.extend(locals.iter()),
        5 => {
            if n_imp > 0 {
                skip.push(rng.below(n_imp as usize) as u32)
            }
        }
        6 => {
            // leading run
            let n = rng.below(locals.len() + 1);
            skip.extend(locals.iter().take(n));
        }
        _ => {
            for f in locals {
                if rng.bool() {
                    skip.push(*f);
                }
            }
            if rng.chance(1, 4) {
                skip.push(10_000);
            }
        }
    }
    if rng.bool() {
        rng.shuffle(&mut skip);
    }
    skip
}

fn gen_module(rng: &mut Rng) -> Result<gen::GenModule, String> {
    let prof = gen::PROFILES[rng.below(gen::PROFILES.len())];
    let mut cfg = GenCfg::default_for(rng);
    cfg.avoid_exnref = true;
    cfg.customs = false;
    match rng.below(8) {
        0 => {
            // no local functions at all
            cfg.min_funcs = 0;
            cfg.max_funcs = 0;
            cfg.start = false;
        }
        1 => {
            cfg.max_stmts = 0;
            cfg.max_funcs = 3;
        }
        2 => {
            cfg.min_funcs = 0;
            cfg.max_funcs = 0;
            cfg.start = false;
            cfg.min_imp_funcs = 1;
        }
        _ => {}
    }
    gen::generate_valid(rng, prof, &cfg).map(|(g, _)| g)
}

impl Prop for Iter {
    fn id(&self) -> &'static str {
        self.id
    }
    fn cases(&self, tier: Tier) -> u64 {
        match tier {
            Tier::Quick => 80_000,
            Tier::Thorough => 500_000,
        }
    }
    fn rule(&self) -> String {
        if self.id == "C25" {
            "generated modules (1/4 without local functions or with empty bodies) x skip lists (none, first, last, trailing run, leading run, all, \
             import ids, random subsets, unknown ids; shuffled). The sequence of (location, end flag, operator) obtained by curr_op / curr_loc / next \
             until None must equal the sequence computed from the independently decoded module, again after reset(); construction and traversal must \
             not panic; nothing to visit => curr_op() is None. Non-trivial = >= 2 local functions and a non-empty skip list, or no local function."
                .into()
        } else {
            "components wrapping 1..5 generated modules (some without local functions) with random skip maps; (A) the component iterator's visit \
             sequence must equal the concatenation of the per-module sequences with the module index attached; (B) a random plain + special injection \
             plan applied through the component iterator must give core modules byte-equal to those obtained by applying the same plan through \
             ModuleIterator on separately parsed copies; also ComponentIterator::add_local (C14). Non-trivial = >= 2 modules and (skips or injections)."
                .into()
        }
    }
    fn assumptions(&self) -> Vec<String> {
        vec![
            "the traversal protocol is the documented one: loop { curr_op(); curr_loc(); if next().is_none() { break } }, curr_loc() only called when curr_op() is Some".into(),
        ]
    }
    fn anchors(&self) -> Vec<&'static str> {
        if self.id == "C25" {
            vec!["handle_skips.skip"]
        } else {
            vec!["next_module"]
        }
    }
    fn run_witness(&self, w: &serde_json::Value) -> Option<CaseOut> {
        if self.id == "C25" {
            if let (Some(h), Some(sk)) = (w["base_hex"].as_str(), w["skip"].as_array()) {
                let bytes = crate::props::c03::hex_decode(h)?;
                let skip: Vec<u32> = sk.iter().filter_map(|x| x.as_u64().map(|v| v as u32)).collect();
                let pre = match (w["pre"].as_str(), w["pre_import"].as_bool()) {
                    (Some("built_fn"), _) => "built_fn",
                    (Some("replace_import"), _) => "replace_import",
                    (Some("add_import_func"), _) | (_, Some(true)) => "add_import_func",
                    _ => "none",
                };
                return Some(self.c25_eval(&bytes, "witness", skip, pre, false));
            }
        }
        match (w["seed"].as_u64(), w["idx"].as_u64()) {
            (Some(s), Some(i)) => Some(self.run_case(s, i, false)),
            _ => None,
        }
    }
    fn run_case(&self, seed: u64, idx: u64, want_sample: bool) -> CaseOut {
        if self.id == "C25" {
            self.c25(seed, idx, want_sample)
        } else {
            self.c26(seed, idx, want_sample)
        }
    }
}

impl Iter {
    fn c25(&self, seed: u64, idx: u64, want_sample: bool) -> CaseOut {
        let mut out = CaseOut::default();
        let mut rng = Rng::for_case(seed, "C25", idx);
        let g = match gen_module(&mut rng) {
            Ok(g) => g,
            Err(_) => {
                out.inconclusive = Some("generator reject".into());
                return out;
            }
        };
        let raw = match sym::decode(&g.bytes) {
            Ok(r) => r,
            Err(e) => {
                out.inconclusive = Some(format!("decode: {}", e));
                return out;
            }
        };
        let locals: Vec<u32> = (0..raw.funcs.len() as u32).map(|k| raw.n_imp_funcs + k).collect();
        let skip = random_skip(&mut rng, &locals, raw.n_imp_funcs);
        // edits made before the iterator is created (2 cases in 5): an added import, a function built with FunctionBuilder
        // (part of the body through inject_all), an imported function replaced by a built one
        let pre = match idx % 10 {
            4 => "add_import_func",
            9 | 3 => "built_fn",
            7 => "replace_import",
            _ => "none",
        };
        self.c25_eval(&g.bytes, g.profile, skip, pre, want_sample)
    }

    fn c25_eval(&self, base: &[u8], profile: &str, skip: Vec<u32>, pre: &'static str, want_sample: bool) -> CaseOut {
        let pre_import = pre == "add_import_func";
        let mut out = CaseOut::default();
        struct G<'x> {
            bytes: &'x [u8],
            profile: &'x str,
        }
        let g = G { bytes: base, profile };
        let raw = match sym::decode(g.bytes) {
            Ok(r) => r,
            Err(e) => {
                out.inconclusive = Some(format!("decode: {}", e));
                return out;
            }
        };
        let locals: Vec<u32> = (0..raw.funcs.len() as u32).map(|k| raw.n_imp_funcs + k).collect();
        let shape = skip_shape(&skip, &locals, raw.n_imp_funcs);
        let shape = if locals.is_empty() { "no-local-functions" } else { shape };
        out.ob(format!("skip-shape:{}", shape));
        out.fp = fnv_mix(fnv(g.bytes), fnv(format!("{:?}", skip).as_bytes()));
        out.nontrivial = locals.is_empty() || (locals.len() >= 2 && !skip.is_empty());
        let mut exp = expected_visits(&raw, 0, &skip);
        use wasmparser::Operator as WO;
        let built_ops: Vec<WO<'static>> = vec![WO::I32Const { value: 7 }, WO::Drop, WO::Nop, WO::Nop, WO::I32Const { value: 8 }, WO::Drop, WO::End];
        let as_visits = |fid: u32, ops: &[WO<'static>]| -> Vec<Visit> { ops.iter().enumerate().map(|(i, o)| (0u32, fid, i, i + 1 == ops.len(), op_bytes(o))).collect() };
        // the function import that is replaced: (ImportsID, FunctionID)
        let mut replaced: Option<(u32, u32)> = None;
        match pre {
            "built_fn" => {
                out.ob("pre-edit:built-function(inject_all)+finish_module");
                let fid = raw.n_imp_funcs + raw.funcs.len() as u32;
                if !skip.contains(&fid) {
                    exp.extend(as_visits(fid, &built_ops));
                }
            }
            "replace_import" => {
                let mut k = 0u32;
                let mut cands = vec![];
                for (i, imp) in raw.imports.iter().enumerate() {
                    if imp.kind == "func" {
                        cands.push((i as u32, k));
                        k += 1;
                    }
                }
                if !cands.is_empty() {
                    let c = cands[(fnv(g.bytes) % cands.len() as u64) as usize];
                    replaced = Some(c);
                    out.ob(if c.0 != c.1 { "pre-edit:replace_import(non-function import in front)" } else { "pre-edit:replace_import" });
                    if !skip.contains(&c.1) {
                        // the new local function keeps the function id of the import: it is visited first (function order)
                        let mut v = as_visits(c.1, &[WO::I32Const { value: 9 }, WO::Drop, WO::End]);
                        // among replaced imports and locals the order is by function id
                        v.extend(exp.drain(..));
                        exp = v;
                    }
                }
            }
            _ => {}
        }
        out.obn("visits_expected", exp.len() as u64);
        let bytes = g.bytes.to_vec();
        let skip_ids: Vec<FunctionID> = skip.iter().map(|s| FunctionID(*s)).collect();
        let pre_type: Option<u32> = if pre_import { raw.types.iter().position(|t| t.contains(" func(")).map(|i| i as u32) } else { None };
        if pre_type.is_some() {
            out.ob("pre-edit:add_import_func");
        }
        let r = catch(|| {
            let mut m = wirm::Module::parse(&bytes, true).map_err(|e| format!("{}", e))?;
            if let Some(t) = pre_type {
                // an import added before the iterator is created: the local functions keep their ids until the module is encoded
                m.add_import_func("pre".to_string(), "added".to_string(), wirm::ir::id::TypeID(t));
            }
            if pre == "built_fn" {
                use wirm::opcode::{Inject, Opcode};
                let mut fb = wirm::ir::function::FunctionBuilder::new(&[], &[]);
                fb.i32_const(7);
                fb.drop();
                fb.inject_all(&[WO::Nop, WO::Nop]);
                fb.i32_const(8);
                fb.drop();
                fb.finish_module(&mut m);
            }
            if let Some((imports_id, _)) = replaced {
                use wirm::opcode::Opcode;
                let ty = match m.imports.get(wirm::ir::id::ImportsID(imports_id)).ty {
                    wasmparser::TypeRef::Func(t) => t,
                    _ => return Err("import is not a function".to_string()),
                };
                let (p, r) = match m.types.get(wirm::ir::id::TypeID(ty)) {
                    Some(t) => (t.params(), t.results()),
                    None => return Err("import type not found".to_string()),
                };
                let mut fb = wirm::ir::function::FunctionBuilder::new(&p, &r);
                fb.i32_const(9);
                fb.drop();
                fb.replace_import_in_module(&mut m, wirm::ir::id::ImportsID(imports_id));
            }
            let mut it = ModuleIterator::new(&mut m, &skip_ids);
            let first = walk_module(&mut it);
            it.reset();
            let second = walk_module(&mut it);
            Ok::<_, String>((first, second))
        });
        let detail = |extra: serde_json::Value| {
            json!({"skip": skip, "local_functions": locals, "pre": pre, "body_lengths": raw.funcs.iter().map(|f| f.ops.len()).collect::<Vec<_>>(),
                   "what": extra, "explicit_witness": {"base_hex": bytes_hex(g.bytes), "skip": skip, "pre": pre}})
        };
        match r {
            Err(p) => out.violate(format!("{}:{}", shape, p.sig()), detail(json!({"panic": p.json()}))),
            Ok(Err(e)) => out.inconclusive = Some(format!("base not usable: {}", crate::runner::norm_msg(&e))),
            Ok(Ok((first, second))) => {
                if let Some((kind, d)) = diff_visits(&exp, &first) {
                    out.violate(format!("{}:{}", shape, kind), detail(d));
                } else if let Some((kind, d)) = diff_visits(&exp, &second) {
                    out.violate(format!("{}:after-reset-{}", shape, kind), detail(d));
                } else {
                    out.obn("visits_checked", (exp.len() * 2) as u64);
                }
            }
        }
        if want_sample {
            out.sample = Some(json!({"profile": g.profile, "local_functions": locals, "skip": skip, "visits": exp.len()}));
        }
        out
    }

    fn c26(&self, seed: u64, idx: u64, want_sample: bool) -> CaseOut {
        let mut out = CaseOut::default();
        let mut rng = Rng::for_case(seed, "C26", idx);
        let nmods = rng.range(1, 5);
        let mut mods = vec![];
        for _ in 0..nmods {
            match gen_module(&mut rng) {
                Ok(g) => mods.push(g.bytes),
                Err(_) => {
                    out.inconclusive = Some("generator reject".into());
                    return out;
                }
            }
        }
        let raws: Vec<sym::RawModule> = match mods.iter().map(|b| sym::decode(b)).collect::<Result<Vec<_>, _>>() {
            Ok(r) => r,
            Err(e) => {
                out.inconclusive = Some(format!("decode: {}", e));
                return out;
            }
        };
        let comp_bytes = gencomp::wrap_modules(&mods, &mut rng);
        // skip map
        let mut skip_map: HashMap<u32, Vec<u32>> = HashMap::new();
        let with_skips = rng.chance(2, 3);
        if with_skips {
            for (k, raw) in raws.iter().enumerate() {
                if rng.chance(2, 3) {
                    let locals: Vec<u32> = (0..raw.funcs.len() as u32).map(|i| raw.n_imp_funcs + i).collect();
                    let s = random_skip(&mut rng, &locals, raw.n_imp_funcs);
                    if !s.is_empty() {
                        skip_map.insert(k as u32, s);
                    }
                }
            }
        }
        let mut exp = vec![];
        for (k, raw) in raws.iter().enumerate() {
            exp.extend(expected_visits(raw, k as u32, skip_map.get(&(k as u32)).map(|v| v.as_slice()).unwrap_or(&[])));
        }
        out.fp = fnv_mix(fnv(&comp_bytes), fnv(format!("{:?}", { let mut v: Vec<_> = skip_map.iter().collect(); v.sort(); v }).as_bytes()));
        let shape = {
            let any_empty = raws.iter().any(|r| r.funcs.is_empty());
            let all_skipped = raws.iter().enumerate().any(|(k, r)| {
                !r.funcs.is_empty() && skip_map.get(&(k as u32)).map(|s| (0..r.funcs.len() as u32).all(|i| s.contains(&(r.n_imp_funcs + i)))).unwrap_or(false)
            });
            match (any_empty, all_skipped, skip_map.is_empty()) {
                (true, _, _) => "module-without-local-functions",
                (_, true, _) => "module-all-skipped",
                (_, _, true) => "no-skips",
                _ => "partial-skips",
            }
        };
        out.ob(format!("shape:{}", shape));
        out.obn("modules", nmods as u64);
        // (A) visit sequence
        let cb = comp_bytes.clone();
        let sm: HashMap<ModuleID, Vec<FunctionID>> =
            skip_map.iter().map(|(k, v)| (ModuleID(*k), v.iter().map(|f| FunctionID(*f)).collect())).collect();
        let r = catch(|| {
            let mut c = wirm::Component::parse(&cb, true).map_err(|e| format!("{}", e))?;
            let mut it = ComponentIterator::new(&mut c, sm.clone());
            let first = walk_component(&mut it);
            it.reset();
            let second = walk_component(&mut it);
            Ok::<_, String>((first, second))
        });
        let detail = |extra: serde_json::Value| {
            json!({"modules": nmods, "skip_map": format!("{:?}", skip_map),
                   "local_functions_per_module": raws.iter().map(|r| r.funcs.len()).collect::<Vec<_>>(), "what": extra,
                   "component_hex": bytes_hex(&comp_bytes)})
        };
        match r {
            Err(p) => out.violate(format!("visit:{}:{}", shape, p.sig()), detail(json!({"panic": p.json()}))),
            Ok(Err(e)) => {
                out.inconclusive = Some(format!("base not usable: {}", crate::runner::norm_msg(&e)));
                return out;
            }
            Ok(Ok((first, second))) => {
                if let Some((kind, d)) = diff_visits(&exp, &first) {
                    out.violate(format!("visit:{}:{}", shape, kind), detail(d));
                } else if let Some((kind, d)) = diff_visits(&exp, &second) {
                    out.violate(format!("visit:{}:after-reset-{}", shape, kind), detail(d));
                } else {
                    out.obn("visits_checked", (exp.len() * 2) as u64);
                }
            }
        }
        // (B) injections through the component iterator == injections through module iterators
        let mut plans: Vec<Vec<Inj>> = vec![];
        let mut uid = 1;
        let mut any_inj = false;
        for raw in &raws {
            let mut plan = vec![];
            if !raw.funcs.is_empty() && rng.chance(2, 3) {
                for _ in 0..rng.range(1, 4) {
                    let f = rng.below(raw.funcs.len());
                    let ops = &raw.funcs[f].ops;
                    let st = lower::structure(ops);
                    let mode = *rng.pick(&[
                        Mode::Before, Mode::After, Mode::Before, Mode::BlockEntry, Mode::BlockExit, Mode::SemAfter, Mode::FuncEntry, Mode::FuncExit,
                        Mode::Alt, Mode::EmptyAlt, Mode::BlockAlt, Mode::EmptyBlockAlt,
                    ]);
                    let at = match mode {
                        Mode::BlockEntry | Mode::BlockExit | Mode::SemAfter => {
                            if st.blockish.is_empty() {
                                continue;
                            }
                            *rng.pick(&st.blockish)
                        }
                        Mode::BlockAlt | Mode::EmptyBlockAlt => {
                            // one replaced construct per function (both paths get the same plan; validity is not the subject here)
                            let c: Vec<usize> = st.blockish.iter().cloned().filter(|b| ops[*b].name != "Else").collect();
                            if c.is_empty() || plan.iter().any(|i: &Inj| i.func == raw.n_imp_funcs + f as u32 && matches!(i.mode, Mode::BlockAlt | Mode::EmptyBlockAlt)) {
                                continue;
                            }
                            *rng.pick(&c)
                        }
                        Mode::Alt | Mode::EmptyAlt => {
                            let c: Vec<usize> =
                                (0..ops.len().saturating_sub(1)).filter(|i| !matches!(ops[*i].name.as_str(), "Block" | "Loop" | "If" | "Else" | "End" | "TryTable" | "Try")).collect();
                            if c.is_empty() {
                                continue;
                            }
                            *rng.pick(&c)
                        }
                        _ => rng.below(ops.len()),
                    };
                    // function-level modes are sticky on iterators: keep them last and at most one per function
                    if matches!(mode, Mode::FuncEntry | Mode::FuncExit) && plan.iter().any(|i: &Inj| i.func == raw.n_imp_funcs + f as u32 && matches!(i.mode, Mode::FuncEntry | Mode::FuncExit)) {
                        continue;
                    }
                    // 1 in 4 of the ordinary injections: made "at a distance" (*_at(loc) + add_instr_at(loc, op)) from the iterator's initial position
                    let path = if matches!(mode, Mode::Before | Mode::After | Mode::Alt) && rng.chance(1, 4) { Path::IterAddInstrAt } else { Path::Iter };
                    plan.push(Inj { func: raw.n_imp_funcs + f as u32, at, mode, path, uid, n_ops: 1, leading_drop: false, probe: lower::Probe::Marker });
                    uid += 1;
                    any_inj = true;
                    // 1 in 6: an ordinary injection is withdrawn again through clear_instr_at with the saved location (the component
                    // iterator stands in ANOTHER module at that moment, if there is one)
                    let clear = match mode {
                        Mode::Before => Some(Mode::ClearBefore),
                        Mode::After => Some(Mode::ClearAfter),
                        Mode::Alt | Mode::EmptyAlt => Some(Mode::ClearAlt),
                        _ => None,
                    };
                    if let (Some(cm), true) = (clear, rng.chance(1, 6)) {
                        plan.push(Inj { func: raw.n_imp_funcs + f as u32, at, mode: cm, path: Path::Iter, uid, n_ops: 1, leading_drop: false, probe: lower::Probe::Marker });
                        uid += 1;
                    }
                }
                // function-level probes last - or (1 plan in 2) wherever they fell: later ordinary injections in that function then join the
                // entry / exit body on BOTH paths (finish_instr closes the instruction mode only)
                if rng.bool() {
                    plan.sort_by_key(|i| matches!(i.mode, Mode::FuncEntry | Mode::FuncExit));
                }
            }
            plans.push(plan);
        }
        if any_inj {
            let cb = comp_bytes.clone();
            let plans2 = plans.clone();
            let via_comp = catch(move || {
                let mut c = wirm::Component::parse(&cb, true).map_err(|e| format!("{}", e))?;
                for (k, plan) in plans2.iter().enumerate() {
                    for inj in plan {
                        let mut it = ComponentIterator::new(&mut c, HashMap::new());
                        if let Some(what) = inj.mode.clears() {
                            use wirm::opcode::Instrumenter;
                            // stand in another module (the first location of the traversal that is not in module k), then clear by location
                            loop {
                                if let (Location::Component { mod_idx, .. }, _) = it.curr_loc() {
                                    if *mod_idx != k as u32 {
                                        break;
                                    }
                                }
                                if it.next().is_none() {
                                    break;
                                }
                            }
                            it.clear_instr_at(Location::Component { mod_idx: wirm::ir::id::ModuleID(k as u32), func_idx: FunctionID(inj.func), instr_idx: inj.at }, what);
                            continue;
                        }
                        if inj.path == Path::IterAddInstrAt {
                            use wirm::opcode::Instrumenter;
                            let loc = Location::Component { mod_idx: wirm::ir::id::ModuleID(k as u32), func_idx: FunctionID(inj.func), instr_idx: inj.at };
                            lower::set_mode_at(&mut it, inj.mode, loc);
                            for o in lower::probe_ops_for(inj) {
                                it.add_instr_at(loc, o);
                            }
                            continue;
                        }
                        loop {
                            if let (Location::Component { mod_idx, func_idx, instr_idx }, _) = it.curr_loc() {
                                if *mod_idx == k as u32 && *func_idx == inj.func && instr_idx == inj.at {
                                    break;
                                }
                            }
                            if it.next().is_none() {
                                panic!("harness: component iterator never reached module {} function {} instr {}", k, inj.func, inj.at);
                            }
                        }
                        lower_set_and_inject(&mut it, inj);
                    }
                }
                let enc = c.encode();
                // a component, like a module, can be encoded more than once: the second encoding must contain the same modules
                let enc2 = c.encode();
                let first = gencomp::extract_modules(&enc)?;
                let second = gencomp::extract_modules(&enc2)?;
                Ok::<_, String>((first, second))
            });
            let (via_comp, second_enc): (Result<Result<Vec<Vec<u8>>, String>, crate::runner::PanicInfo>, Option<Vec<Vec<u8>>>) = match via_comp {
                Ok(Ok((a, b))) => (Ok(Ok(a)), Some(b)),
                Ok(Err(e)) => (Ok(Err(e)), None),
                Err(p) => (Err(p), None),
            };
            if let (Ok(Ok(first)), Some(second)) = (&via_comp, &second_enc) {
                if first != second {
                    let modes: Vec<String> = {
                        let mut m: Vec<String> = plans.iter().flatten().map(|i| format!("{:?}", i.mode)).collect();
                        m.sort();
                        m.dedup();
                        m
                    };
                    let k = first.iter().zip(second.iter()).position(|(a, b)| a != b).unwrap_or(0);
                    out.violate(
                        "inject:second-component-encoding-differs".to_string(),
                        detail(json!({"module": k, "plans": format!("{:?}", plans), "modes": modes.join("+"),
                                      "first": first.get(k).map(|b| crate::props::c01::text_of(b)), "second": second.get(k).map(|b| crate::props::c01::text_of(b))})),
                    );
                } else {
                    out.ob("second_component_encoding_equal");
                }
            }
            let mut via_mod: Vec<Result<Vec<u8>, String>> = vec![];
            for (k, plan) in plans.iter().enumerate() {
                match lower::apply_module(&mods[k], plan) {
                    Ok((_, Ok(b), _)) => via_mod.push(Ok(b)),
                    Ok((_, Err(p), _)) => via_mod.push(Err(format!("encode {}", p.sig()))),
                    Err(e) => via_mod.push(Err(e)),
                }
            }
            match via_comp {
                Err(p) => {
                    // a panic on the component path that the module path does not have
                    if via_mod.iter().all(|r| r.is_ok()) {
                        out.violate(format!("inject:{}", p.sig()), detail(json!({"panic": p.json(), "plans": format!("{:?}", plans)})));
                    } else {
                        out.ob("both-paths-fail");
                    }
                }
                Ok(Err(e)) => out.violate("inject:component-output-undecodable".to_string(), detail(json!({"error": e}))),
                Ok(Ok(cm)) => {
                    if cm.len() != mods.len() {
                        out.violate("inject:module-count-differs".to_string(), detail(json!({"got": cm.len()})));
                    } else {
                        for (k, (a, b)) in cm.iter().zip(via_mod.iter()).enumerate() {
                            match b {
                                Ok(b) if a == b => out.ob("modules_byte_equal"),
                                Ok(b) => {
                                    let modes: Vec<String> = {
                                        let mut m: Vec<String> = plans[k].iter().map(|i| format!("{:?}", i.mode)).collect();
                                        m.sort();
                                        m.dedup();
                                        m
                                    };
                                    out.violate(
                                        format!("inject:bytes-differ:{}", modes.join("+")),
                                        detail(json!({"module": k, "plan": format!("{:?}", plans[k]),
                                                      "via_component": crate::props::c01::text_of(a), "via_module_iterator": crate::props::c01::text_of(b)})),
                                    );
                                }
                                Err(e) => {
                                    out.ob(format!("module-path-failed:{}", crate::runner::norm_msg(e).chars().take(40).collect::<String>()));
                                }
                            }
                        }
                    }
                }
            }
        }
        // ComponentIterator::add_local (C14's remaining API path)
        if let Some((k, raw)) = raws.iter().enumerate().find(|(_, r)| !r.funcs.is_empty()) {
            let f = rng.below(raw.funcs.len());
            let fid = raw.n_imp_funcs + f as u32;
            let nparams = param_count(raw, f);
            let before = raw.funcs[f].locals.len();
            let cb = comp_bytes.clone();
            let r = catch(move || {
                use wirm::module_builder::AddLocal;
                let mut c = wirm::Component::parse(&cb, true).map_err(|e| format!("{}", e))?;
                let got;
                {
                    let mut it = ComponentIterator::new(&mut c, HashMap::new());
                    loop {
                        if let (Location::Component { mod_idx, func_idx, .. }, _) = it.curr_loc() {
                            if *mod_idx == k as u32 && *func_idx == fid {
                                break;
                            }
                        }
                        if it.next().is_none() {
                            panic!("harness: never reached function");
                        }
                    }
                    got = *it.add_local(wirm::DataType::I64);
                }
                let enc = c.encode();
                Ok::<_, String>((got, gencomp::extract_modules(&enc)?))
            });
            match r {
                Ok(Ok((got, ms))) => {
                    let want = nparams + before as u32;
                    let locals_after = ms.get(k).and_then(|b| sym::decode(b).ok()).map(|r| r.funcs[f].locals.clone());
                    let mut expl = raw.funcs[f].locals.clone();
                    expl.push("i64".into());
                    if got != want {
                        out.violate("add_local:wrong-id-returned".to_string(), detail(json!({"returned": got, "expected": want})));
                    } else if locals_after.as_ref() != Some(&expl) {
                        out.violate("add_local:locals-differ".to_string(), detail(json!({"expected": expl, "observed": locals_after})));
                    } else {
                        out.ob("component_add_local_checked");
                    }
                }
                Ok(Err(_)) => {}
                Err(p) => out.violate(format!("add_local:{}", p.sig()), detail(json!({"panic": p.json()}))),
            }
        }
        out.nontrivial = nmods >= 2 && (!skip_map.is_empty() || any_inj);
        if want_sample {
            out.sample = Some(json!({"modules": nmods, "skip_map": format!("{:?}", skip_map), "visits": exp.len(), "plans": format!("{:?}", plans)}));
        }
        out
    }
}

fn param_count(raw: &sym::RawModule, local_idx: usize) -> u32 {
    // "sub ... func(a,b)->(c)"
    let t = raw.types.get(raw.funcs[local_idx].type_idx as usize).cloned().unwrap_or_default();
    let inner = t.split("func(").nth(1).and_then(|s| s.split(")->").next()).unwrap_or("");
    if inner.is_empty() {
        0
    } else {
        let mut depth = 0;
        let mut n = 1;
        for c in inner.chars() {
            match c {
                '(' => depth += 1,
                ')' => depth -= 1,
                ',' if depth == 0 => n += 1,
                _ => {}
            }
        }
        n
    }
}

fn lower_set_and_inject(it: &mut ComponentIterator, inj: &Inj) {
    use wirm::iterator::iterator_trait::IteratingInstrumenter;
    use wirm::opcode::{Inject, Instrumenter};
    match inj.mode {
        Mode::Before => {
            it.before();
        }
        Mode::After => {
            it.after();
        }
        Mode::BlockEntry => {
            it.block_entry();
        }
        Mode::BlockExit => {
            it.block_exit();
        }
        Mode::SemAfter => {
            it.semantic_after();
        }
        Mode::FuncEntry => {
            it.func_entry();
        }
        Mode::FuncExit => {
            it.func_exit();
        }
        Mode::Alt => {
            it.alternate();
        }
        Mode::EmptyAlt => {
            it.empty_alternate();
            return;
        }
        Mode::BlockAlt => {
            it.block_alt();
        }
        Mode::EmptyBlockAlt => {
            it.empty_block_alt();
            return;
        }
        Mode::ClearBefore | Mode::ClearAfter | Mode::ClearAlt | Mode::ClearSemAfter | Mode::ClearBlockEntry | Mode::ClearBlockExit => return,
    }
    for o in lower::probe_ops_for(inj) {
        it.inject(o);
    }
    // closes the instruction-level mode (a function-level mode stays active, exactly as on a module iterator)
    it.finish_instr();
}

fn bytes_hex(b: &[u8]) -> String {
    if b.len() > 4000 {
        return format!("<{} bytes>", b.len());
    }
    b.iter().map(|x| format!("{:02x}", x)).collect()
}
