//! Scenario pool shared by C04 (determinism across processes) and C05 (re-encoding gives the
//! same bytes): the edit histories of C06-C08 and the instrumentation plans of C15-C22,
//! re-generated deterministically from (seed, idx) and executed on the real library.
//!
//! C05: one process, `encode()` three times, bytes #1 == #2 == #3.
//! C04: the same scenario is replayed in K fresh OS processes (independent SipHash keys for
//!      every `HashMap`), SHA-free comparison of the complete output bytes via a 128-bit FNV pair;
//!      a second in-process replay is compared as well (each `HashMap` instance has its own keys).

use crate::edit::{self, HistoryCfg};
use crate::gen::{self, GenCfg, TyInfo};
use crate::props::{hist, lower, sem};
use crate::rng::{fnv, fnv_mix, Rng};
use crate::runner::{catch, CaseOut, Merged, PanicInfo, Prop, Tier};
use serde_json::{json, Value};
use std::collections::BTreeSet;
use std::process::{Command, Stdio};

pub const KINDS: &[&str] = &[
    "hist:C06", "hist:C07", "hist:C08", "plan:C15", "plan:C21", "plan:C22", "sem:C16", "sem:C17", "sem:C18", "sem:C19", "sem:C20", "types", "dense-special",
    "hist+plan", "hist:C10", "hist:C11", "hist:C12", "hist:C14", "hist:C30",
];

pub struct ScenOut {
    pub kind: &'static str,
    pub desc_hash: u64,
    pub triggers: BTreeSet<String>,
    pub encodes: Vec<Result<Vec<u8>, PanicInfo>>,
    pub desc: Value,
}

fn hex(b: &[u8]) -> String {
    b.iter().map(|x| format!("{:02x}", x)).collect()
}

fn triggers_of_log(log: &[String], t: &mut BTreeSet<String>) {
    for l in log {
        let w = l.split(' ').next().unwrap_or("");
        let c = match w {
            "add_import_func" | "delete_func" | "convert_local_fn_to_import" | "replace_import_in_module" => "func-reindex",
            "add_imported_global" | "delete_global" => "global-reindex",
            "add_import_memory" | "delete_memory" => "memory-reindex",
            "inject" => "plain-injections",
            "add_local_fn" | "build" => "functions-added",
            "add_global" | "iterator" | "add_local_memory" | "add_data" | "add_export_func" | "add_export_mem" | "mod_global_init_expr" | "exports.delete" => "items-added",
            _ => "other-edits",
        };
        t.insert(c.to_string());
    }
}

fn triggers_of_plan(plan: &[lower::Inj], t: &mut BTreeSet<String>) {
    for i in plan {
        t.insert(if i.mode.special() { "special-modes".to_string() } else { "plain-injections".to_string() });
    }
}

/// Plans that make several special-mode bodies resolve at one `end`: block-exit + semantic-after
/// on the same construct and semantic-after on several branches to it.
fn dense_plan(rng: &mut Rng) -> Result<(Vec<u8>, Vec<lower::Inj>), String> {
    use lower::{Inj, Mode, Path, Probe};
    let prog = crate::gprog::generate_valid(rng).map_err(|_| "generator reject".to_string())?;
    let raw = crate::sym::decode(&prog.bytes).map_err(|e| format!("decode: {}", e))?;
    let mut plan = vec![];
    let mut uid = 100u32;
    let paths = [Path::Iter, Path::Modifier];
    for (k, func) in raw.funcs.iter().enumerate() {
        let fid = raw.n_imp_funcs + k as u32;
        let st = lower::structure(&func.ops);
        for b in &st.blockish {
            let name = func.ops[*b].name.as_str();
            for mode in [Mode::BlockExit, Mode::SemAfter, Mode::BlockEntry] {
                if mode == Mode::SemAfter && name == "Loop" {
                    continue;
                }
                if rng.chance(2, 3) {
                    plan.push(Inj { func: fid, at: *b, mode, path: *rng.pick(&paths), uid, n_ops: 1, leading_drop: false, probe: Probe::Host });
                    uid += 1;
                }
            }
        }
        for (i, o) in func.ops.iter().enumerate() {
            if matches!(o.name.as_str(), "Br" | "BrIf" | "BrTable") && !lower::branch_target_class(&func.ops, i).contains("loop") && rng.chance(2, 3) {
                plan.push(Inj { func: fid, at: i, mode: Mode::SemAfter, path: *rng.pick(&paths), uid, n_ops: 1, leading_drop: false, probe: Probe::Host });
                uid += 1;
            }
        }
        if rng.bool() {
            plan.push(Inj { func: fid, at: 0, mode: Mode::FuncExit, path: Path::Modifier, uid, n_ops: 1, leading_drop: false, probe: Probe::Host });
            uid += 1;
            plan.push(Inj { func: fid, at: 0, mode: Mode::FuncEntry, path: Path::Modifier, uid, n_ops: 1, leading_drop: false, probe: Probe::Host });
            uid += 1;
        }
    }
    plan.sort_by_key(|i| matches!(i.mode, Mode::FuncEntry | Mode::FuncExit));
    if plan.is_empty() {
        return Err("empty plan (no applicable site)".into());
    }
    Ok((prog.bytes, plan))
}

/// Bases with structurally identical types + type additions that hit them, then functions
/// imported / built with the returned ids (so the ids are visible in the output bytes).
/// hand-built base: several non-final `(sub (func (param i32)))` declarations of one signature (some with a supertype), no
/// plain declaration of it; a request for that signature must not resolve to "whichever of them a hash map yields first"
fn sub_types_base(rng: &mut Rng) -> Vec<u8> {
    use wasm_encoder::{CodeSection, CompositeInnerType, CompositeType, FuncType, Function, FunctionSection, Module, SubType, TypeSection, ValType};
    let mut types = TypeSection::new();
    let k = rng.range(2, 5);
    for i in 0..k {
        let sup = if i > 0 && rng.bool() { Some(rng.below(i) as u32) } else { None };
        types.ty().subtype(&SubType {
            is_final: false,
            supertype_idx: sup,
            composite_type: CompositeType { inner: CompositeInnerType::Func(FuncType::new([ValType::I32], [])), shared: false },
        });
    }
    types.ty().function([], []);
    let mut funcs = FunctionSection::new();
    funcs.function(k as u32);
    let mut code = CodeSection::new();
    let mut f = Function::new([]);
    f.instruction(&wasm_encoder::Instruction::End);
    code.function(&f);
    let mut m = Module::new();
    m.section(&types);
    m.section(&funcs);
    m.section(&code);
    m.finish()
}

fn types_scenario(rng: &mut Rng, n_enc: usize) -> Result<(Vec<u8>, Value, Vec<Result<Vec<u8>, PanicInfo>>), String> {
    if rng.chance(1, 4) {
        let bytes = sub_types_base(rng);
        crate::sym::validate(&bytes).map_err(|e| format!("generator reject: {}", e))?;
        let desc = json!({"profile": "sub-types-of-one-signature", "base_hex": hex(&bytes), "requests": ["([I32], [])"]});
        let b2 = bytes.clone();
        let r = catch(move || {
            let mut m = wirm::Module::parse(&b2, true).map_err(|e| format!("{}", e))?;
            let t = m.types.add_func_type(&[wirm::DataType::I32], &[], None);
            m.add_import_func("types".to_string(), "f".to_string(), t);
            // a built function of that signature as well (FunctionBuilder looks the type up the same way)
            let fb = wirm::ir::function::FunctionBuilder::new(&[wirm::DataType::I32], &[]);
            fb.finish_module(&mut m);
            let mut encs = vec![];
            for _ in 0..n_enc.max(1) {
                let e = catch(|| m.encode());
                let stop = e.is_err();
                encs.push(e);
                if stop {
                    break;
                }
            }
            Ok::<_, String>(encs)
        });
        return match r {
            Ok(Ok(encs)) => Ok((bytes, desc, encs)),
            Ok(Err(e)) => Err(format!("base not usable: {}", crate::runner::norm_msg(&e))),
            Err(p) => Err(format!("call panic (subject of C13): {}", p.sig())),
        };
    }
    let mut cfg = GenCfg::default_for(rng);
    cfg.avoid_exnref = true;
    cfg.max_types = 12;
    let prof = if rng.bool() { gen::PROFILES[6] } else { gen::PROFILES[rng.below(gen::PROFILES.len())] };
    let (g, _) = gen::generate_valid(rng, prof, &cfg)?;
    // requests: signatures of existing function types (duplicates in the base are likely in the gc profile) + fresh ones
    let mut reqs: Vec<(Vec<wirm::DataType>, Vec<wirm::DataType>)> = vec![];
    let existing: Vec<(Vec<gen::VT>, Vec<gen::VT>)> = g
        .types
        .iter()
        .filter_map(|t| match t {
            TyInfo::Func(p, r) => Some((p.clone(), r.clone())),
            _ => None,
        })
        .collect();
    let n = rng.range(2, 8);
    for _ in 0..n {
        if !existing.is_empty() && rng.chance(2, 3) {
            let (p, r) = rng.pick(&existing).clone();
            let pp: Option<Vec<_>> = p.iter().map(|t| edit::vt_dt(*t)).collect();
            let rr: Option<Vec<_>> = r.iter().map(|t| edit::vt_dt(*t)).collect();
            if let (Some(pp), Some(rr)) = (pp, rr) {
                reqs.push((pp, rr));
                continue;
            }
        }
        let nums = [wirm::DataType::I32, wirm::DataType::I64, wirm::DataType::F32, wirm::DataType::F64];
        let p: Vec<_> = (0..rng.below(4)).map(|_| *rng.pick(&nums)).collect();
        let r: Vec<_> = (0..rng.below(2)).map(|_| *rng.pick(&nums)).collect();
        reqs.push((p, r));
    }
    let desc = json!({"profile": g.profile, "base_types": g.types.len(), "requests": reqs.iter().map(|q| format!("{:?}", q)).collect::<Vec<_>>()});
    let bytes = g.bytes.clone();
    let reqs2 = reqs.clone();
    let r = catch(move || {
        let mut m = wirm::Module::parse(&bytes, true).map_err(|e| format!("{}", e))?;
        for (k, (p, r)) in reqs2.iter().enumerate() {
            let t = m.types.add_func_type(p, r, None);
            m.add_import_func("types".to_string(), format!("f{}", k), t);
        }
        let mut encs = vec![];
        for _ in 0..n_enc.max(1) {
            let e = catch(|| m.encode());
            let stop = e.is_err();
            encs.push(e);
            if stop {
                break;
            }
        }
        Ok::<_, String>(encs)
    });
    match r {
        Ok(Ok(encs)) => Ok((g.bytes, desc, encs)),
        Ok(Err(e)) => Err(format!("base not usable: {}", crate::runner::norm_msg(&e))),
        Err(p) => Err(format!("call panic (subject of C13): {}", p.sig())),
    }
}

pub fn run_scenario(seed: u64, idx: u64, n_enc: usize) -> Result<ScenOut, String> {
    let kind = KINDS[(idx % KINDS.len() as u64) as usize];
    let mut rng = Rng::for_case(seed, "scen", idx);
    let mut triggers = BTreeSet::new();
    match kind {
        k if k.starts_with("hist:") || k == "hist+plan" => {
            let id = if k == "hist+plan" { *rng.pick(&["C06", "C07", "C08"]) } else { &k[5..] };
            let sp = hist::spec(id);
            let small = rng.chance(1, 3);
            let g = hist::base_module(id, &mut rng, small).map_err(|e| format!("generator reject: {}", crate::runner::norm_msg(&e)))?;
            if k == "hist+plan" {
                return hist_then_plan(kind, &g, id, &mut rng, n_enc);
            }
            // C05 also observes emit_wasm: in 1 of 3 histories some of the encodings go through a file (any position, incl. the first)
            let emit_mask = { let m = if rng.chance(1, 3) { rng.range(1, 7) as u8 } else { 0 }; if n_enc > 1 { m } else { 0 } };
            let cfg = HistoryCfg { alphabet: sp.alphabet, max_len: sp.max_len, emit_mask };
            let o = edit::run_history(&g, &mut rng, &cfg, n_enc).map_err(|e| format!("base not usable: {}", crate::runner::norm_msg(&e)))?;
            if let Some((what, p)) = &o.call_panic {
                return Err(format!("call panic (subject of {}): {} {}", id, what, p.sig()));
            }
            triggers_of_log(&o.model.log, &mut triggers);
            let mut encodes = vec![o.encoded];
            if let Some(s) = o.second {
                encodes.push(s);
            }
            if let Some(s) = o.third {
                encodes.push(s);
            }
            let desc_hash = fnv_mix(fnv(&g.bytes), fnv(o.model.log.join("\n").as_bytes()));
            Ok(ScenOut { kind, desc_hash, triggers, encodes, desc: json!({"profile": g.profile, "history": o.model.log, "base_hex": hex(&g.bytes)}) })
        }
        k if k.starts_with("plan:") => {
            let (g, plan, _, _) = lower::gen_plan(&k[5..], &mut rng)?;
            plan_scenario(kind, g.bytes, plan, n_enc)
        }
        k if k.starts_with("sem:") => {
            let (bytes, plan, _) = sem::gen_case(&k[4..], &mut rng)?;
            plan_scenario(kind, bytes, plan, n_enc)
        }
        "dense-special" => {
            let (bytes, plan) = dense_plan(&mut rng)?;
            plan_scenario(kind, bytes, plan, n_enc)
        }
        _ => {
            let (bytes, desc, encodes) = types_scenario(&mut rng, n_enc)?;
            triggers.insert("types-added".into());
            triggers.insert("func-reindex".into());
            let desc_hash = fnv_mix(fnv(&bytes), fnv(desc.to_string().as_bytes()));
            Ok(ScenOut { kind, desc_hash, triggers, encodes, desc })
        }
    }
}

fn plan_scenario(kind: &'static str, bytes: Vec<u8>, plan: Vec<lower::Inj>, n_enc: usize) -> Result<ScenOut, String> {
    let mut triggers = BTreeSet::new();
    triggers_of_plan(&plan, &mut triggers);
    let (status, encodes, _) = match lower::apply_module_multi(&bytes, &plan, n_enc) {
        Ok(x) => x,
        Err(e) if e.starts_with("legal-call-panic") => return Err(format!("call panic (subject of C15-C22): {}", crate::runner::norm_msg(&e))),
        Err(e) => return Err(format!("base not usable: {}", crate::runner::norm_msg(&e))),
    };
    let plan_s: Vec<String> = plan.iter().zip(status.iter()).map(|(i, s)| format!("{:?} => {:?}", i, s)).collect();
    let desc_hash = fnv_mix(fnv(&bytes), fnv(plan_s.join("\n").as_bytes()));
    Ok(ScenOut { kind, desc_hash, triggers, encodes, desc: json!({"plan": plan_s, "base_hex": hex(&bytes)}) })
}

/// A C06-C08 history followed by special-mode injections on the surviving original functions, then n encodes.
fn hist_then_plan(kind: &'static str, g: &gen::GenModule, id: &str, rng: &mut Rng, n_enc: usize) -> Result<ScenOut, String> {
    use lower::{Inj, Mode, Path, Probe};
    let sp = hist::spec(id);
    // the history driver owns the module; re-do its work here through the public pieces
    let emit_mask = { let m = if rng.chance(1, 3) { rng.range(1, 7) as u8 } else { 0 }; if n_enc > 1 { m } else { 0 } };
    let cfg = HistoryCfg { alphabet: sp.alphabet & !edit::A_DELETE & !edit::A_TO_IMPORT & !edit::A_REPLACE_IMPORT, max_len: 5, emit_mask };
    let raw = crate::sym::decode(&g.bytes).map_err(|e| format!("decode: {}", e))?;
    let mut plan: Vec<Inj> = vec![];
    let mut uid = 1u32;
    for (k, func) in raw.funcs.iter().enumerate() {
        let fid = raw.n_imp_funcs + k as u32;
        let st = lower::structure(&func.ops);
        for b in st.blockish.iter().take(3) {
            let mode = *rng.pick(&[Mode::BlockEntry, Mode::BlockExit, Mode::SemAfter]);
            plan.push(Inj { func: fid, at: *b, mode, path: Path::Modifier, uid, n_ops: 1, leading_drop: false, probe: Probe::Marker });
            uid += 1;
        }
        if rng.bool() {
            plan.push(Inj { func: fid, at: 0, mode: if rng.bool() { Mode::FuncEntry } else { Mode::FuncExit }, path: Path::Modifier, uid, n_ops: 1, leading_drop: false, probe: Probe::Marker });
            uid += 1;
        }
    }
    let o = edit::run_history_with_plan(g, rng, &cfg, n_enc, &plan).map_err(|e| format!("base not usable: {}", crate::runner::norm_msg(&e)))?;
    if let Some((what, p)) = &o.call_panic {
        return Err(format!("call panic (subject of {}): {} {}", id, what, p.sig()));
    }
    let mut triggers = BTreeSet::new();
    triggers_of_log(&o.model.log, &mut triggers);
    triggers_of_plan(&plan, &mut triggers);
    let mut encodes = vec![o.encoded];
    if let Some(s) = o.second {
        encodes.push(s);
    }
    if let Some(s) = o.third {
        encodes.push(s);
    }
    let plan_s: Vec<String> = plan.iter().map(|i| format!("{:?}", i)).collect();
    let desc_hash = fnv_mix(fnv_mix(fnv(&g.bytes), fnv(o.model.log.join("\n").as_bytes())), fnv(plan_s.join("\n").as_bytes()));
    Ok(ScenOut { kind, desc_hash, triggers, encodes, desc: json!({"profile": g.profile, "history": o.model.log, "then_plan": plan_s, "base_hex": hex(&g.bytes)}) })
}

/// (section id, start offset of payload, payload) list of a module binary
fn sections(b: &[u8]) -> Vec<(u8, Vec<u8>)> {
    let mut out = vec![];
    let mut pos = 8usize;
    while pos < b.len() {
        let id = b[pos];
        pos += 1;
        let mut size = 0usize;
        let mut shift = 0;
        while pos < b.len() {
            let x = b[pos];
            pos += 1;
            size |= ((x & 0x7f) as usize) << shift;
            shift += 7;
            if x & 0x80 == 0 {
                break;
            }
        }
        let end = (pos + size).min(b.len());
        out.push((id, b[pos..end].to_vec()));
        pos = end;
    }
    out
}
fn section_name(id: u8) -> &'static str {
    match id {
        0 => "custom",
        1 => "type",
        2 => "import",
        3 => "function",
        4 => "table",
        5 => "memory",
        6 => "global",
        7 => "export",
        8 => "start",
        9 => "element",
        10 => "code",
        11 => "data",
        12 => "data-count",
        13 => "tag",
        _ => "other",
    }
}
pub fn first_differing_section(a: &[u8], b: &[u8]) -> String {
    let (sa, sb) = (sections(a), sections(b));
    for (x, y) in sa.iter().zip(sb.iter()) {
        if x.0 != y.0 {
            return format!("section-sequence({}≠{})", section_name(x.0), section_name(y.0));
        }
        if x.1 != y.1 {
            return section_name(x.0).to_string();
        }
    }
    if sa.len() != sb.len() {
        return "section-count".into();
    }
    "none".into()
}

fn enc_key(r: &Result<Vec<u8>, PanicInfo>) -> String {
    match r {
        Ok(b) => format!("{:016x}{:016x}:{}", fnv(b), fnv_mix(fnv(b), b.len() as u64 ^ 0x51ed), b.len()),
        Err(p) => format!("panic:{}", p.sig()),
    }
}

// ------------------------------------------------------------------------------------
// C05

pub struct C05;

impl Prop for C05 {
    fn id(&self) -> &'static str {
        "C05"
    }
    fn cases(&self, tier: Tier) -> u64 {
        match tier {
            Tier::Quick => 112_000,
            Tier::Thorough => 700_000,
        }
    }
    fn rule(&self) -> String {
        format!(
            "scenario pool = {} kinds round-robin: random edit histories of C06 / C07 / C08, injection plans of C15 / C21 / C22 (markers), probe plans of \
             C16-C20 on generated programs, type additions on bases with duplicate types, dense special-mode plans (several bodies resolving at one end), \
             and histories followed by special-mode plans. After the last call the module is encoded three times (in 1 of 3 history scenarios any of the three encodings, incl. the first, \
             and in 1 of 8 plan scenarios the second, goes through emit_wasm to a file instead of encode()); bytes #1 == #2 == #3. Non-trivial = the scenario re-indexed an index space, added items, or \
             injected code; distinct = base bytes + history / plan.",
            KINDS.len()
        )
    }
    fn assumptions(&self) -> Vec<String> {
        vec![
            "a scenario whose first encoding panics (dangling reference, subject of C09) or whose calls panic (subject of the property owning the call) is inconclusive here".into(),
            "only Module::encode / emit_wasm are observed; Component::encode is outside the statement".into(),
        ]
    }
    fn anchors(&self) -> Vec<&'static str> {
        vec!["encode_internal"]
    }
    fn run_witness(&self, w: &Value) -> Option<CaseOut> {
        if let (Some(path), Some(op)) = (w["wat"].as_str(), w["op"].as_str()) {
            // explicit, generator-independent witness: one edit on a hand-written module, then three encodings
            let bytes = wat::parse_file(format!("{}/{}", std::env::var("VERIF_DIR").unwrap_or_else(|_| "/verif".into()), path)).ok()?;
            let op = op.to_string();
            let b2 = bytes.clone();
            let r = catch(move || {
                use wirm::ir::id::{FunctionID, GlobalID, MemoryID, TypeID};
                let mut m = wirm::Module::parse(&b2, true).expect("witness base parses");
                match op.as_str() {
                    "add_import_func" => {
                        m.add_import_func("env".into(), "added".into(), TypeID(0));
                    }
                    "delete_func" => m.delete_func(FunctionID(1)),
                    "add_imported_global" => {
                        m.add_imported_global("env".into(), "added".into(), wirm::DataType::I32, false, false);
                    }
                    "delete_global" => m.delete_global(GlobalID(2)),
                    "add_import_memory" => {
                        m.add_import_memory("env".into(), "added".into(), wasmparser::MemoryType { memory64: false, shared: false, initial: 7, maximum: None, page_size_log2: None });
                    }
                    "delete_memory" => m.delete_memory(MemoryID(1)),
                    other => panic!("harness: unknown witness op {}", other),
                }
                (0..3).map(|_| catch(|| m.encode())).collect::<Vec<_>>()
            });
            let encodes = match r {
                Ok(e) => e,
                Err(p) => {
                    let mut out = CaseOut::default();
                    out.violate(format!("witness-call-{}", p.sig()), json!({"witness": w}));
                    return Some(out);
                }
            };
            let mut t = BTreeSet::new();
            t.insert(
                match w["op"].as_str().unwrap_or("") {
                    "add_import_func" | "delete_func" => "func-reindex",
                    "add_imported_global" | "delete_global" => "global-reindex",
                    _ => "memory-reindex",
                }
                .to_string(),
            );
            let sc = ScenOut { kind: "explicit-witness", desc_hash: fnv(&bytes), triggers: t, encodes, desc: w.clone() };
            return Some(self.judge(sc, 0, false));
        }
        match (w["seed"].as_u64(), w["idx"].as_u64()) {
            (Some(s), Some(i)) => Some(self.run_case(s, i, false)),
            _ => None,
        }
    }
    fn run_case(&self, seed: u64, idx: u64, want_sample: bool) -> CaseOut {
        match run_scenario(seed, idx, 3) {
            Ok(s) => self.judge(s, seed, want_sample),
            Err(e) => {
                let mut out = CaseOut::default();
                out.inconclusive = Some(e.chars().take(90).collect());
                out
            }
        }
    }
}

impl C05 {
    fn judge(&self, sc: ScenOut, seed: u64, want_sample: bool) -> CaseOut {
        let mut out = CaseOut::default();
        out.fp = sc.desc_hash;
        out.ob(format!("kind:{}", sc.kind));
        for t in &sc.triggers {
            out.ob(format!("trigger:{}", t));
        }
        let trig = sc.triggers.iter().cloned().collect::<Vec<_>>().join("+");
        let first = match &sc.encodes[0] {
            Ok(b) => b,
            Err(p) => {
                out.inconclusive = Some(format!("first encode panics: {}", p.sig()).chars().take(90).collect());
                return out;
            }
        };
        if sc.encodes.len() < 2 {
            out.inconclusive = Some("only one encoding obtained".into());
            return out;
        }
        out.ob("encodings_compared");
        for (k, e) in sc.encodes.iter().enumerate().skip(1) {
            match e {
                Ok(b) if b == first => out.ob(format!("encode#{}==#1", k + 1)),
                Ok(b) => {
                    let valid1 = crate::sym::validate(first).is_ok();
                    let valid_k = crate::sym::validate(b).is_ok();
                    out.violate(
                        format!("encode#{}-differs:{}|{}", k + 1, first_differing_section(first, b), trig),
                        json!({"scenario": sc.desc, "kind": sc.kind, "seed": seed, "first_len": first.len(), "again_len": b.len(),
                               "first_valid": valid1, "again_valid": valid_k,
                               "first_wat": crate::props::c01::text_of(first).lines().take(120).collect::<Vec<_>>().join("\n"),
                               "again_wat": crate::props::c01::text_of(b).lines().take(120).collect::<Vec<_>>().join("\n")}),
                    );
                    break;
                }
                Err(p) => {
                    out.violate(format!("encode#{}-{}|{}", k + 1, p.sig(), trig), json!({"scenario": sc.desc, "kind": sc.kind, "seed": seed, "panic": p.json()}));
                    break;
                }
            }
        }
        out.nontrivial = !sc.triggers.is_empty();
        if want_sample {
            out.sample = Some(json!({"kind": sc.kind, "triggers": sc.triggers, "scenario": sc.desc, "encodings": sc.encodes.iter().map(enc_key).collect::<Vec<_>>()}));
        }
        out
    }
}

// ------------------------------------------------------------------------------------
// C04

pub struct C04;

fn k_procs(tier: Tier) -> usize {
    match tier {
        Tier::Quick => 4,
        Tier::Thorough => 12,
    }
}

/// child entry point: `harness c04one <seed> <from> <count>` prints one line per scenario: idx desc_hash enc_key
pub fn child_main(seed: u64, from: u64, count: u64) {
    crate::runner::install_panic_hook();
    crate::runner::install_log_sink();
    for idx in from..from + count {
        match run_scenario(seed, idx, 1) {
            Ok(s) => println!("{} {:016x} {}", idx, s.desc_hash, enc_key(&s.encodes[0]).replace(' ', "_")),
            Err(e) => println!("{} - inconclusive:{}", idx, e.replace(' ', "_")),
        }
    }
}

const BATCH: u64 = 16;

impl Prop for C04 {
    fn id(&self) -> &'static str {
        "C04"
    }
    /// one case = one batch of BATCH scenarios replayed in K processes
    fn cases(&self, tier: Tier) -> u64 {
        match tier {
            Tier::Quick => 14 * 48,
            Tier::Thorough => 14 * 1500,
        }
    }
    fn rule(&self) -> String {
        format!(
            "same scenario pool as C05 ({} kinds). One case = a batch of {} scenarios executed (a) in the worker process, (b) a second time in the worker \
             process (fresh HashMap instances => fresh SipHash keys), (c) in K-1 further fresh OS processes (K = 4 quick / 12 thorough); the complete encoded \
             bytes (length + two 64-bit hashes) or the panic signature must agree everywhere. The scenario description hash (base bytes + call history / \
             plan incl. the ids the library returned) is compared too: a difference there means the calls themselves were not the same. Non-trivial = scenario with \
             at least one edit or injection; distinct = base bytes + history / plan.",
            KINDS.len(),
            BATCH
        )
    }
    fn assumptions(&self) -> Vec<String> {
        vec![
            "std::collections::HashMap uses per-process random keys (RandomState) and per-instance key increments; K processes sample K key sets".into(),
            "the harness's own scenario generation is deterministic (checked: description hashes agree across processes, otherwise the case is a harness error)".into(),
        ]
    }
    fn anchors(&self) -> Vec<&'static str> {
        vec!["resolve_bodies.flagged", "resolve_bodies.not_flagged", "add_type.dedup_hit", "add_type.new"]
    }
    fn time_cap(&self, tier: Tier) -> u64 {
        match tier {
            Tier::Quick => 120,
            Tier::Thorough => 1500,
        }
    }
    fn run_witness(&self, w: &Value) -> Option<CaseOut> {
        if let Some(path) = w["wat"].as_str() {
            // explicit witness: a type request matching several identical types of a hand-written module, replayed 16 times
            // in this process (every HashMap instance gets fresh keys)
            let bytes = wat::parse_file(format!("{}/{}", std::env::var("VERIF_DIR").unwrap_or_else(|_| "/verif".into()), path)).ok()?;
            let mut keys = BTreeSet::new();
            for _ in 0..16 {
                let b2 = bytes.clone();
                let r = catch(move || {
                    let mut m = wirm::Module::parse(&b2, true).expect("witness base parses");
                    let t = m.types.add_func_type(&[wirm::DataType::I32], &[], None);
                    m.add_import_func("env".into(), "added".into(), t);
                    m.encode()
                });
                keys.insert(enc_key(&r));
            }
            let mut out = CaseOut::default();
            if keys.len() > 1 {
                out.violate("output-differs|types".to_string(), json!({"witness": w, "distinct_outputs": keys.len()}));
            }
            return Some(out);
        }
        match (w["seed"].as_u64(), w["idx"].as_u64()) {
            (Some(s), Some(i)) => Some(self.run_case(s, i, false)),
            _ => None,
        }
    }
    fn run_case(&self, seed: u64, idx: u64, want_sample: bool) -> CaseOut {
        let mut out = CaseOut::default();
        let tier = Tier::parse(&std::env::var("VERIF_TIER_CUR").unwrap_or_default());
        let k = std::env::var("VERIF_C04_PROCS").ok().and_then(|s| s.parse().ok()).unwrap_or(k_procs(tier));
        let from = idx * BATCH;
        // (c) children first (they run while this process does (a) and (b))
        let exe = std::env::current_exe().expect("current_exe");
        let children: Vec<_> = (1..k)
            .filter_map(|_| {
                Command::new(&exe)
                    .arg("c04one")
                    .arg(seed.to_string())
                    .arg(from.to_string())
                    .arg(BATCH.to_string())
                    .stdin(Stdio::null())
                    .stdout(Stdio::piped())
                    .stderr(Stdio::null())
                    .spawn()
                    .ok()
            })
            .collect();
        // (a) + (b)
        let mut local: Vec<(u64, Option<ScenOut>, String, String)> = vec![];
        for i in from..from + BATCH {
            let a = run_scenario(seed, i, 1);
            let b = run_scenario(seed, i, 1);
            let key = |r: &Result<ScenOut, String>| match r {
                Ok(s) => format!("{:016x} {}", s.desc_hash, enc_key(&s.encodes[0]).replace(' ', "_")),
                Err(e) => format!("- inconclusive:{}", e.replace(' ', "_")),
            };
            let (ka, kb) = (key(&a), key(&b));
            local.push((i, a.ok(), ka, kb));
        }
        let mut remote: Vec<std::collections::BTreeMap<u64, String>> = vec![];
        for c in children {
            match c.wait_with_output() {
                Ok(o) if o.status.success() => {
                    let mut m = std::collections::BTreeMap::new();
                    for l in String::from_utf8_lossy(&o.stdout).lines() {
                        let mut it = l.splitn(2, ' ');
                        if let (Some(i), Some(rest)) = (it.next().and_then(|x| x.parse::<u64>().ok()), it.next()) {
                            m.insert(i, rest.to_string());
                        }
                    }
                    remote.push(m);
                }
                Ok(o) => {
                    use std::os::unix::process::ExitStatusExt;
                    // a child that dies is itself a disagreement if this process survived the same batch
                    out.violate(
                        format!("child-process-died:{}", o.status.signal().map(|s| format!("signal:{}", s)).unwrap_or_else(|| format!("exit:{}", o.status.code().unwrap_or(-1)))),
                        json!({"seed": seed, "batch_from": from}),
                    );
                }
                Err(_) => out.ob("child-unreadable(inconclusive)"),
            }
        }
        let mut any_nontrivial = false;
        let mut fp = 0u64;
        for (i, sc, ka, kb) in &local {
            let mut keys: Vec<(String, &String)> = vec![("in-process#1".to_string(), ka), ("in-process#2".to_string(), kb)];
            for (n, r) in remote.iter().enumerate() {
                if let Some(v) = r.get(i) {
                    keys.push((format!("process#{}", n + 2), v));
                }
            }
            let Some(sc) = sc else {
                out.ob("scenario-inconclusive");
                continue;
            };
            fp = fnv_mix(fp, sc.desc_hash);
            out.ob(format!("kind:{}", sc.kind));
            out.obn("executions_compared", keys.len() as u64);
            let descs: BTreeSet<&str> = keys.iter().map(|(_, k)| k.split(' ').next().unwrap_or("")).collect();
            let trig = sc.triggers.iter().cloned().collect::<Vec<_>>().join("+");
            if descs.len() > 1 {
                // the call sequence itself differed: ids returned by the library differ between runs (or the harness is not deterministic)
                out.violate(
                    format!("call-history-differs|{}", sc.kind),
                    json!({"seed": seed, "scenario_idx": i, "scenario": sc.desc, "per_execution": keys.iter().map(|(a, b)| format!("{}: {}", a, b)).collect::<Vec<_>>(),
                           "note": "the description includes the ids returned by the library; if only those differ the library is non-deterministic, otherwise the harness is"}),
                );
                continue;
            }
            let encs: BTreeSet<&str> = keys.iter().map(|(_, k)| k.split(' ').nth(1).unwrap_or("")).collect();
            if encs.len() > 1 {
                let has_panic = encs.iter().any(|e| e.starts_with("panic:"));
                out.violate(
                    format!("{}|{}", if has_panic { "panic-in-some-executions" } else { "output-differs" }, sc.kind),
                    json!({"seed": seed, "scenario_idx": i, "scenario": sc.desc, "distinct_outputs": encs.len(), "triggers": trig,
                           "per_execution": keys.iter().map(|(a, b)| format!("{}: {}", a, b)).collect::<Vec<_>>()}),
                );
            } else {
                out.ob("scenario_agreed");
                if !sc.triggers.is_empty() {
                    any_nontrivial = true;
                }
            }
        }
        out.fp = fp;
        out.nontrivial = any_nontrivial;
        if want_sample {
            if let Some((i, Some(sc), ka, _)) = local.iter().find(|(_, s, _, _)| s.is_some()) {
                out.sample = Some(json!({"scenario_idx": i, "kind": sc.kind, "triggers": sc.triggers, "scenario": sc.desc, "agreed_output": ka, "executions": remote.len() + 2}));
            }
        }
        out
    }
    fn post(&self, _seed: u64, tier: Tier, m: &mut Merged) {
        m.extra.insert("processes_per_scenario".into(), json!(k_procs(tier)));
        m.extra.insert("scenarios_per_case".into(), json!(BATCH));
    }
}
