//! C06–C11, C29: edit histories on generated modules whose entities carry unique
//! fingerprints; the output is decoded independently and every reference site is
//! compared, by identity, with the shadow model of the edit API (see edit.rs).

use crate::edit::{self, *};
use crate::gen::{self, GenCfg, Profile};
use crate::rng::{fnv, fnv_mix, Rng};
use crate::runner::{CaseOut, Prop, Tier};
use serde_json::json;

pub struct Hist {
    pub id: &'static str,
}

pub struct Spec {
    pub alphabet: u32,
    pub max_len: usize,
    want_names: bool,
    only_names: bool,
    min_site_kinds: usize,
    anchors: Vec<&'static str>,
    rule: &'static str,
}

pub fn spec(id: &str) -> Spec {
    match id {
        "C06" => Spec {
            alphabet: A_FUNC | A_ADD | A_DELETE | A_TO_IMPORT | A_REPLACE_IMPORT | A_INJECT | A_EXPORTS,
            max_len: 12,
            want_names: false,
            only_names: false,
            min_site_kinds: 3,
            anchors: vec!["fix_op_id.func", "reorganise.local_became_import", "reorganise.import_became_local", "reorganise.local_deleted"],
            rule: "function/import operations: add local fn via builder (body calls live functions), add import fn, delete (only unreferenced functions), \
                   local->import, import->local (replace_import_in_module), inject calls before/after any instruction, add/delete function exports",
        },
        "C07" => Spec {
            alphabet: A_GLOBAL | A_ADD | A_DELETE | A_INJECT | A_FUNC,
            max_len: 12,
            want_names: false,
            only_names: false,
            min_site_kinds: 2,
            anchors: vec!["fix_op_id.global"],
            rule: "global operations: add_global (constant or global.get initialiser), iterator-level add_global, add_imported_global, delete_global \
                   (only unreferenced), mod_global_init_expr, injected global.get/global.set, plus built functions that use globals",
        },
        "C08" => Spec {
            alphabet: A_MEM | A_ADD | A_DELETE | A_INJECT | A_EXPORTS | A_DATA | A_FUNC,
            max_len: 10,
            want_names: false,
            only_names: false,
            min_site_kinds: 2,
            anchors: vec!["fix_op_id.memory"],
            rule: "memory operations on multi-memory bases whose code uses every memory-indexed family (plain/SIMD/atomic loads and stores, rmw, cmpxchg, \
                   wait/notify, size/grow/fill/copy/init): add_local_memory, add_import_memory, delete_memory (only unreferenced), injected loads/stores, \
                   memory exports, active data segments",
        },
        "C09" => Spec {
            alphabet: A_FUNC | A_GLOBAL | A_MEM | A_ADD | A_DELETE | A_DANGLING | A_EXPORTS,
            max_len: 8,
            want_names: false,
            only_names: false,
            min_site_kinds: 0,
            anchors: vec!["delete_func", "delete_global", "delete_memory"],
            rule: "deletions of functions / globals / memories (local and imported) and of exports, interleaved with additions; deletions may leave live \
                   references behind, in which case encode must fail loudly (panic) instead of emitting an index",
        },
        "C10" => Spec {
            alphabet: A_FUNC | A_REPLACE_IMPORT | A_ADD | A_INJECT | A_EXPORTS,
            max_len: 8,
            want_names: false,
            only_names: false,
            min_site_kinds: 2,
            anchors: vec!["convert_import_fn_to_local"],
            rule: "replace_import_in_module on every kind of function import of bases with interleaved function / global / memory / table / tag imports, \
                   alone and combined with additions, injections and export edits",
        },
        "C11" => Spec {
            alphabet: A_FUNC | A_TO_IMPORT | A_ADD | A_INJECT | A_DELETE,
            max_len: 8,
            want_names: false,
            only_names: false,
            min_site_kinds: 2,
            anchors: vec!["convert_local_fn_to_import"],
            rule: "convert_local_fn_to_import on any subset of local functions in any order, interleaved with add_import_func / builder additions / injections / deletions of unreferenced functions (incl. parsed imports)",
        },
        "C12" => Spec {
            alphabet: A_FUNC | A_RICH | A_ADD | A_DELETE | A_TO_IMPORT | A_INJECT | A_EXPORTS,
            max_len: 8,
            want_names: true,
            only_names: false,
            min_site_kinds: 0,
            anchors: vec!["add_type.new", "add_type.dedup_hit"],
            rule: "functions built through FunctionBuilder: 0-4 params/results, 0-5 locals of numeric / v128 / reference types added before and between                    instructions, 2-10 statements issued through the Opcode/MacroOpcode helpers (arithmetic, comparisons, conversions, locals, select,                    blocks/loops/ifs with br_if, loads/stores, u32_const/u64_const), optional set_name; finish_module interleaved with other function edits",
        },
        "C14" => Spec {
            alphabet: A_FUNC | A_LOCALS | A_RICH | A_ADD | A_INJECT | A_REPLACE_IMPORT,
            max_len: 10,
            want_names: false,
            only_names: false,
            min_site_kinds: 0,
            anchors: vec!["encode_internal"],
            rule: "local additions through FunctionBuilder::add_local, FunctionModifier::add_local / add_locals, LocalFunction::add_local and                    ModuleIterator::add_local (ComponentIterator::add_local: see component sub-workload) with random value types on random functions,                    interleaved with builder additions and injections; returned LocalID must equal params + locals declared so far",
        },
        "C30" => Spec {
            alphabet: A_GLOBAL | A_MEM | A_ADD | A_EXPORTS | A_DATA | A_RICH | A_FUNC,
            max_len: 10,
            want_names: false,
            only_names: false,
            min_site_kinds: 0,
            anchors: vec!["encode_internal"],
            rule: "module-level additions: add_global with every InitInstr variant valid for the type (NaN-payload f32/f64, v128, global.get, ref.func,                    ref.null), mod_global_init_expr, add_data (active on any memory / passive), add_local_memory / add_import_memory (memory64, shared,                    maximum), exports.add_export_func / add_export_mem",
        },
        _ => Spec {
            // C29
            alphabet: A_FUNC | A_GLOBAL | A_ADD | A_DELETE | A_TO_IMPORT | A_REPLACE_IMPORT | A_NAMES,
            max_len: 10,
            want_names: true,
            only_names: true,
            min_site_kinds: 0,
            anchors: vec!["encode_internal"],
            rule: "histories that shift function and global indices (additions, deletions, conversions) plus naming calls on bases with complete name \
                   sections; only the name.* sites of the symbolic form are compared",
        },
    }
}

const TAPE_BASE: u64 = 6;
const TAPE_LEN: u32 = 5;
fn tape_space() -> u64 {
    TAPE_BASE.pow(TAPE_LEN) * 4
}

pub fn base_module(id: &str, rng: &mut Rng, small: bool) -> Result<gen::GenModule, String> {
    let mut cfg = GenCfg::default_for(rng);
    cfg.names = true;
    cfg.customs = false;
    cfg.avoid_exnref = true;
    let prof: Profile = match id {
        "C08" => {
            let flags = gen::F_MULTIMEM | gen::F_BULK | gen::F_THREADS | gen::F_SIMD | if rng.bool() { gen::F_MEM64 } else { 0 };
            cfg.min_mems = 1;
            cfg.max_mems = 3;
            cfg.min_imp_mems = if rng.bool() { 1 } else { 0 };
            cfg.max_imp_mems = 2;
            cfg.min_funcs = 1;
            cfg.max_stmts = if small { 6 } else { 24 };
            Profile { name: "c08-multimem+threads+simd", flags }
        }
        "C07" => {
            cfg.min_globals = 2;
            cfg.max_globals = 5;
            // 1 base in 6 has imported globals only (ids handed out by the add_* calls then come from another branch)
            if rng.chance(1, 6) {
                cfg.min_globals = 0;
                cfg.max_globals = 0;
                cfg.min_imp_globals = 2;
            }
            cfg.min_imp_globals = 1;
            cfg.max_imp_globals = 3;
            // initialiser / offset expressions read any imported global, so that deleting or adding an import in front of it matters
            cfg.off_global_any = true;
            cfg.min_funcs = 1;
            *rng.pick(&[gen::PROFILES[0], gen::PROFILES[2], gen::PROFILES[6], gen::PROFILES[11], gen::PROFILES[4]])
        }
        "C10" => {
            cfg.min_imp_funcs = 2;
            cfg.max_imp_funcs = 4;
            cfg.min_imp_globals = 1;
            cfg.mixed_imports = true;
            cfg.min_funcs = 1;
            *rng.pick(&[gen::PROFILES[2], gen::PROFILES[7], gen::PROFILES[10], gen::PROFILES[11], gen::PROFILES[0]])
        }
        _ => {
            cfg.min_imp_funcs = 1;
            cfg.max_imp_funcs = 3;
            cfg.min_funcs = 2;
            cfg.max_funcs = if small { 3 } else { 6 };
            cfg.min_globals = 1;
            cfg.min_imp_globals = if id == "C29" { 1 } else { 0 };
            if id == "C29" {
                // function imports behind non-function imports: FunctionID != ImportsID
                cfg.mixed_imports = rng.bool();
            }
            *rng.pick(&[gen::PROFILES[0], gen::PROFILES[2], gen::PROFILES[5], gen::PROFILES[6], gen::PROFILES[11], gen::PROFILES[2]])
        }
    };
    if small {
        cfg.max_stmts = cfg.max_stmts.min(6);
        cfg.max_funcs = cfg.max_funcs.min(3).max(cfg.min_funcs);
        cfg.max_imp_funcs = cfg.max_imp_funcs.min(2).max(cfg.min_imp_funcs);
    }
    cfg.ref_heavy = rng.chance(1, 3);
    gen::generate_valid(rng, prof, &cfg).map(|(g, _)| g)
}

impl Prop for Hist {
    fn id(&self) -> &'static str {
        self.id
    }
    fn cases(&self, tier: Tier) -> u64 {
        match tier {
            Tier::Quick => tape_space() + 90_000,
            Tier::Thorough => tape_space() + 600_000,
        }
    }
    fn rule(&self) -> String {
        format!(
            "{}. Cases 0..{} replay systematically enumerated choice tapes (base {}, length {}: every combination of the first {} alternatives at \
             each of the first {} choice points) on 4 small base modules; the remaining cases are random histories (length <= max_len) on random \
             generated bases. Non-trivial = the history moved at least one surviving entity to another index and enough distinct kinds of reference \
             sites mention a moved entity (or, for deletions with live references, the required loud failure was observed); distinct = hash of base bytes + history log.",
            spec(self.id).rule,
            tape_space(),
            TAPE_BASE,
            TAPE_LEN,
            TAPE_BASE,
            TAPE_LEN
        )
    }
    fn assumptions(&self) -> Vec<String> {
        vec![
            "identities are recovered from fingerprints in the output bytes (first instructions of a body, import names, unique initialisers / page counts)".into(),
            "only legal API usage is generated (never reuse a deleted id, replace_import only with an equal signature, C06-C08 delete only unreferenced entities)".into(),
            "the model never predicts an index, only which identity each reference site must resolve to".into(),
        ]
    }
    fn anchors(&self) -> Vec<&'static str> {
        spec(self.id).anchors
    }
    fn run_witness(&self, w: &serde_json::Value) -> Option<CaseOut> {
        // explicit witness: {"base_hex": "...", "tape": [..]}  (independent of the generators)
        if let (Some(h), Some(t)) = (w["base_hex"].as_str(), w["tape"].as_array()) {
            let bytes = crate::props::c03::hex_decode(h)?;
            let g = gen::info_from_bytes(&bytes).ok()?;
            let tape: Vec<u32> = t.iter().filter_map(|x| x.as_u64().map(|v| v as u32)).collect();
            let rng = Rng::new(1, 1).with_tape(tape);
            return Some(self.run_on(g, rng, w["max_len"].as_u64().unwrap_or(4) as usize, false, true));
        }
        match (w["seed"].as_u64(), w["idx"].as_u64()) {
            (Some(s), Some(i)) => Some(self.run_case(s, i, false)),
            _ => None,
        }
    }
    fn run_case(&self, seed: u64, idx: u64, want_sample: bool) -> CaseOut {
        let mut out = CaseOut::default();
        let sp = spec(self.id);
        let tape_mode = idx < tape_space();
        let (g, mut rng) = if tape_mode {
            let which = idx / TAPE_BASE.pow(TAPE_LEN);
            let mut brng = Rng::for_case(seed, self.id, 1_000_000 + which);
            let g = match base_module(self.id, &mut brng, true) {
                Ok(g) => g,
                Err(e) => {
                    out.inconclusive = Some(format!("generator reject: {}", crate::runner::norm_msg(&e)));
                    return out;
                }
            };
            let mut digits = vec![];
            let mut x = idx % TAPE_BASE.pow(TAPE_LEN);
            for _ in 0..TAPE_LEN {
                digits.push((x % TAPE_BASE) as u32);
                x /= TAPE_BASE;
            }
            // first choice = history length: force 2 operations (+ tape for their choices)
            let mut tape = vec![1u32];
            tape.extend(digits);
            (g, Rng::for_case(seed, self.id, idx).with_tape(tape))
        } else {
            let mut rng = Rng::for_case(seed, self.id, idx);
            match base_module(self.id, &mut rng, false) {
                Ok(g) => (g, rng),
                Err(e) => {
                    out.inconclusive = Some(format!("generator reject: {}", crate::runner::norm_msg(&e)));
                    return out;
                }
            }
        };
        let max_len = if tape_mode { 3 } else { sp.max_len };
        self.run_on(g, rng, max_len, want_sample, tape_mode)
    }
}

impl Hist {
    fn run_on(&self, g: gen::GenModule, mut rng: Rng, max_len: usize, want_sample: bool, tape_mode: bool) -> CaseOut {
        let mut out = CaseOut::default();
        let sp = spec(self.id);
        out.ob(if tape_mode { "mode:tape" } else { "mode:random" });
        out.ob(format!("profile:{}", g.profile));
        let cfg = HistoryCfg { alphabet: sp.alphabet, max_len, emit_mask: 0 };
        rng.clear_record();
        // 1 base in 4: the module is encoded twice and the SECOND output is judged (the references must be right in every encoding)
        let twice = fnv(&g.bytes) % 4 == 0;
        let o = match edit::run_history(&g, &mut rng, &cfg, if twice { 2 } else { 1 }) {
            Ok(mut o) => {
                if let Some(s) = o.second.take() {
                    out.ob("second-encoding-judged");
                    o.encoded = s;
                }
                o
            }
            Err(e) => {
                // parse failure on a valid base is C01's subject; here it is inconclusive
                out.inconclusive = Some(format!("base not usable: {}", crate::runner::norm_msg(&e)));
                return out;
            }
        };
        out.fp = fnv_mix(fnv(&g.bytes), fnv(o.model.log.join("\n").as_bytes()));
        for l in &o.model.log {
            out.ob(format!("op:{}", l.split(' ').next().unwrap_or("")));
        }
        let focus = move |_d: &SiteDiff| -> bool { true };
        edit::judge(&g, &o, &mut out, sp.want_names, sp.only_names, sp.min_site_kinds, &focus);
        // explicit, generator-independent witness of this case: base bytes + the choices the driver consumed
        let choices = rng.recorded_choices();
        for v in out.violations.iter_mut() {
            if let Some(m) = v.detail.as_object_mut() {
                m.insert(
                    "explicit_witness".into(),
                    json!({"base_hex": g.bytes.iter().map(|b| format!("{:02x}", b)).collect::<String>(), "tape": choices, "max_len": max_len}),
                );
            }
        }
        if self.id == "C29" {
            // non-trivial for names: at least one named entity moved
            out.nontrivial = out.obs.iter().any(|(k, n)| k == "moved_entities" && *n > 0);
        }
        if matches!(self.id, "C12" | "C14" | "C30") {
            let key = match self.id {
                "C12" => "build",
                "C14" => "add_local",
                _ => "add_",
            };
            let n = o.model.log.iter().filter(|l| l.contains(key)).count();
            out.nontrivial = n >= 1 && out.obs.iter().any(|(k, _)| k == "outputs_validated");
        }
        if self.id == "C09" {
            let deleted = o.model.log.iter().any(|l| l.starts_with("delete_") || l.starts_with("exports.delete"));
            out.nontrivial = deleted && (out.nontrivial || !o.model.must_fail.is_empty() || out.obs.iter().any(|(k, _)| k == "outputs_validated"));
        }
        if want_sample {
            out.sample = Some(edit::history_sample(&g, &o));
        }
        out
    }
}
