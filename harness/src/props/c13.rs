//! C13 — added types are exact and de-duplicated, and never disturb existing types.

use crate::gen::{self, GenCfg};
use crate::rng::{fnv, fnv_mix, Rng};
use crate::runner::{catch, CaseOut, Prop, Tier};
use crate::sym;
use serde_json::json;
use wirm::ir::id::TypeID;
use wirm::DataType;

pub struct C13;

/// independent rendering of a DataType in wasmparser's Display syntax
fn dt(d: &DataType) -> String {
    match d {
        DataType::I8 => "i8".into(),
        DataType::I16 => "i16".into(),
        DataType::I32 => "i32".into(),
        DataType::I64 => "i64".into(),
        DataType::F32 => "f32".into(),
        DataType::F64 => "f64".into(),
        DataType::V128 => "v128".into(),
        DataType::FuncRefNull => "funcref".into(),
        DataType::FuncRef => "(ref func)".into(),
        DataType::ExternRefNull => "externref".into(),
        DataType::ExternRef => "(ref extern)".into(),
        DataType::AnyNull => "anyref".into(),
        DataType::Any => "(ref any)".into(),
        DataType::EqNull => "eqref".into(),
        DataType::Eq => "(ref eq)".into(),
        DataType::StructNull => "structref".into(),
        DataType::Struct => "(ref struct)".into(),
        DataType::ArrayNull => "arrayref".into(),
        DataType::Array => "(ref array)".into(),
        DataType::I31Null => "i31ref".into(),
        DataType::I31 => "(ref i31)".into(),
        DataType::NoneNull => "nullref".into(),
        DataType::None => "(ref none)".into(),
        DataType::NoFuncNull => "nullfuncref".into(),
        DataType::NoFunc => "(ref nofunc)".into(),
        DataType::NoExternNull => "nullexternref".into(),
        DataType::NoExtern => "(ref noextern)".into(),
        DataType::Module { ty_id, nullable } => {
            if *nullable {
                format!("(ref null (module {}))", ty_id)
            } else {
                format!("(ref (module {}))", ty_id)
            }
        }
        other => format!("<{:?}>", other),
    }
}

#[derive(Clone, Debug)]
enum Req {
    Func { p: Vec<DataType>, r: Vec<DataType>, sup: Option<u32>, fin: bool, shared: bool, plain: bool },
    Array { f: DataType, m: bool, sup: Option<u32>, fin: bool, shared: bool, plain: bool },
    Struct { f: Vec<DataType>, m: Vec<bool>, sup: Option<u32>, fin: bool, shared: bool, plain: bool },
}

impl Req {
    fn expected(&self) -> String {
        match self {
            Req::Func { p, r, sup, fin, shared, .. } => format!(
                "sub final={} super={:?} shared={} func({})->({})",
                fin,
                sup.map(Some),
                shared,
                p.iter().map(dt).collect::<Vec<_>>().join(","),
                r.iter().map(dt).collect::<Vec<_>>().join(",")
            ),
            Req::Array { f, m, sup, fin, shared, .. } => {
                format!("sub final={} super={:?} shared={} array(mut={} {})", fin, sup.map(Some), shared, m, dt(f))
            }
            Req::Struct { f, m, sup, fin, shared, .. } => format!(
                "sub final={} super={:?} shared={} struct({})",
                fin,
                sup.map(Some),
                shared,
                f.iter().zip(m.iter()).map(|(t, mu)| format!("mut={} {}", mu, dt(t))).collect::<Vec<_>>().join(";")
            ),
        }
    }
    fn is_shared(&self) -> bool {
        match self {
            Req::Func { shared, .. } | Req::Array { shared, .. } | Req::Struct { shared, .. } => *shared,
        }
    }
    fn apply(&self, m: &mut wirm::Module) -> u32 {
        let t = &mut m.types;
        *match self.clone() {
            Req::Func { p, r, plain: true, .. } => t.add_func_type(&p, &r, None),
            Req::Func { p, r, sup, fin, shared, .. } => t.add_func_type_with_params(&p, &r, sup.map(TypeID), fin, shared, None),
            Req::Array { f, m, plain: true, .. } => t.add_array_type(f, m, None),
            Req::Array { f, m, sup, fin, shared, .. } => t.add_array_type_with_params(f, m, sup.map(TypeID), fin, shared, None),
            Req::Struct { f, m, plain: true, .. } => t.add_struct_type(f, m, None),
            Req::Struct { f, m, sup, fin, shared, .. } => t.add_struct_type_with_params(f, m, sup.map(TypeID), fin, shared, None),
        }
    }
}

fn val_type(rng: &mut Rng, n_types: u32, gc: bool) -> DataType {
    let base = [DataType::I32, DataType::I64, DataType::F32, DataType::F64, DataType::V128, DataType::FuncRefNull, DataType::ExternRefNull];
    let gcs = [
        DataType::AnyNull,
        DataType::Any,
        DataType::EqNull,
        DataType::Eq,
        DataType::StructNull,
        DataType::Struct,
        DataType::ArrayNull,
        DataType::Array,
        DataType::I31Null,
        DataType::I31,
        DataType::NoneNull,
        DataType::None,
        DataType::NoFuncNull,
        DataType::NoFunc,
        DataType::NoExternNull,
        DataType::NoExtern,
        DataType::FuncRef,
        DataType::ExternRef,
    ];
    if gc && rng.chance(1, 3) {
        if n_types > 0 && rng.chance(1, 3) {
            DataType::Module { ty_id: rng.below(n_types as usize) as u32, nullable: rng.bool() }
        } else {
            *rng.pick(&gcs)
        }
    } else {
        *rng.pick(&base)
    }
}

impl Prop for C13 {
    fn id(&self) -> &'static str {
        "C13"
    }
    fn cases(&self, tier: Tier) -> u64 {
        match tier {
            Tier::Quick => 120_000,
            Tier::Thorough => 800_000,
        }
    }
    fn rule(&self) -> String {
        "generated base (half of them GC profile with explicit rec groups, subtypes and duplicate types) + 2..10 additions through add_func_type, \
         add_func_type_with_params, add_array_type(_with_params), add_struct_type(_with_params) (storage types i8/i16, abstract and concrete reference \
         types, supertypes cloned from existing non-final types, finality, shared in 1/8 of requests), 40% of the requests repeat an earlier one. \
         Non-trivial = at least one repeated request and one non-func request; distinct = hash of base + request list."
            .into()
    }
    fn assumptions(&self) -> Vec<String> {
        vec![
            "structural equality of the decoded SubType with the request; membership in a recursion group is not compared".into(),
            "requests with shared=true are not validated (shared-everything-threads is outside the modelled profiles)".into(),
        ]
    }
    fn anchors(&self) -> Vec<&'static str> {
        vec!["add_type.new", "add_type.dedup_hit"]
    }
    fn run_case(&self, seed: u64, idx: u64, want_sample: bool) -> CaseOut {
        let mut out = CaseOut::default();
        let mut rng = Rng::for_case(seed, "C13", idx);
        let prof = if idx % 2 == 0 { gen::PROFILES[6] } else { gen::PROFILES[rng.below(gen::PROFILES.len())] };
        let mut cfg = GenCfg::default_for(&mut rng);
        cfg.avoid_exnref = true;
        cfg.max_types = 12;
        let g = match gen::generate_valid(&mut rng, prof, &cfg) {
            Ok((g, _)) => g,
            Err(_) => {
                out.inconclusive = Some("generator reject".into());
                return out;
            }
        };
        let raw_in = match sym::decode(&g.bytes) {
            Ok(r) => r,
            Err(e) => {
                out.inconclusive = Some(format!("decode: {}", e));
                return out;
            }
        };
        let gc = prof.flags & gen::F_GC != 0;
        let n0 = raw_in.types.len() as u32;
        // candidate supertypes: existing non-final types, with their kind
        let nonfinal: Vec<(u32, String)> =
            raw_in.types.iter().enumerate().filter(|(_, t)| t.starts_with("sub final=false")).map(|(i, t)| (i as u32, t.clone())).collect();
        let n = rng.range(2, 10);
        let mut reqs: Vec<Req> = vec![];
        for _ in 0..n {
            if !reqs.is_empty() && rng.chance(2, 5) {
                let mut r = rng.pick(&reqs).clone();
                // 1 repeat in 3 is a near-copy: same fields, but finality / the plain entry point / one mutability flag differs - a different
                // type that must not be mistaken for the earlier one
                if rng.chance(1, 3) {
                    match &mut r {
                        Req::Func { fin, plain, .. } => {
                            if *plain {
                                *plain = false;
                                *fin = false;
                            } else {
                                *fin = !*fin;
                            }
                        }
                        Req::Array { m, plain, fin, .. } => {
                            *m = !*m;
                            if *plain && rng.bool() {
                                *plain = false;
                                *fin = true;
                            }
                        }
                        Req::Struct { m, .. } => {
                            if m.is_empty() {
                                continue;
                            }
                            let k = rng.below(m.len());
                            m[k] = !m[k];
                        }
                    }
                }
                reqs.push(r);
                continue;
            }
            // 1 in 4: a request whose signature a function type of the PARSED module already has (a plain request de-duplicates
            // against it when that type is final, unshared and has no supertype; in every case the returned index must hold the request)
            if rng.chance(1, 4) {
                let sigs: Vec<(Vec<DataType>, Vec<DataType>)> = g
                    .types
                    .iter()
                    .filter_map(|t| match t {
                        gen::TyInfo::Func(p, r) => {
                            let pp: Option<Vec<DataType>> = p.iter().map(|t| crate::edit::vt_dt(*t)).collect();
                            let rr: Option<Vec<DataType>> = r.iter().map(|t| crate::edit::vt_dt(*t)).collect();
                            Some((pp?, rr?))
                        }
                        _ => None,
                    })
                    .collect();
                if !sigs.is_empty() {
                    let (p, r) = rng.pick(&sigs).clone();
                    reqs.push(Req::Func { p, r, sup: None, fin: true, shared: false, plain: true });
                    continue;
                }
            }
            let fin = rng.chance(3, 4);
            let shared = rng.chance(1, 8);
            let plain = rng.chance(1, 3);
            let kind = if gc { rng.below(3) } else { 0 };
            let req = match kind {
                0 => {
                    let p: Vec<DataType> = (0..rng.below(4)).map(|_| val_type(&mut rng, n0, gc)).collect();
                    let r: Vec<DataType> = (0..rng.below(3)).map(|_| val_type(&mut rng, n0, gc)).collect();
                    Req::Func { p, r, sup: None, fin: if plain { true } else { fin }, shared: !plain && shared, plain }
                }
                1 => {
                    let f = if rng.chance(1, 4) { *rng.pick(&[DataType::I8, DataType::I16]) } else { val_type(&mut rng, n0, gc) };
                    Req::Array { f, m: rng.bool(), sup: None, fin: if plain { true } else { fin }, shared: !plain && shared, plain }
                }
                _ => {
                    let nf = rng.below(4);
                    let f: Vec<DataType> =
                        (0..nf).map(|_| if rng.chance(1, 5) { *rng.pick(&[DataType::I8, DataType::I16]) } else { val_type(&mut rng, n0, gc) }).collect();
                    let m: Vec<bool> = (0..nf).map(|_| rng.bool()).collect();
                    Req::Struct { f, m, sup: None, fin: if plain { true } else { fin }, shared: !plain && shared, plain }
                }
            };
            reqs.push(req);
        }
        // supertype requests: clone the structure of an existing non-final *unshared* struct type with one more field
        if gc && !nonfinal.is_empty() && rng.bool() {
            let (sidx, sdesc) = rng.pick(&nonfinal).clone();
            if sdesc.contains("shared=false struct(") {
                // parse the field list back into DataTypes where possible: only numeric fields are reproduced
                let inner = &sdesc[sdesc.find("struct(").unwrap() + 7..sdesc.len() - 1];
                let mut f = vec![];
                let mut m = vec![];
                let mut ok = true;
                if !inner.is_empty() {
                    for fld in inner.split(';') {
                        let mu = fld.starts_with("mut=true");
                        let ty = fld.split(' ').nth(1).unwrap_or("");
                        let d = match ty {
                            "i8" => DataType::I8,
                            "i16" => DataType::I16,
                            "i32" => DataType::I32,
                            "i64" => DataType::I64,
                            "f32" => DataType::F32,
                            "f64" => DataType::F64,
                            "anyref" => DataType::AnyNull,
                            "funcref" => DataType::FuncRefNull,
                            _ => {
                                ok = false;
                                DataType::I32
                            }
                        };
                        f.push(d);
                        m.push(mu);
                    }
                }
                if ok {
                    f.push(DataType::F64);
                    m.push(false);
                    reqs.push(Req::Struct { f, m, sup: Some(sidx), fin: rng.bool(), shared: false, plain: false });
                }
            }
        }
        out.fp = fnv_mix(fnv(&g.bytes), fnv(format!("{:?}", reqs).as_bytes()));
        let bytes = g.bytes.clone();
        let reqs2 = reqs.clone();
        let r = catch(move || {
            let mut m = wirm::Module::parse(&bytes, true).map_err(|e| format!("{}", e))?;
            let mut ids = vec![];
            for q in &reqs2 {
                ids.push(q.apply(&mut m));
            }
            Ok::<_, String>((ids, m.encode()))
        });
        let (ids, encoded) = match r {
            Err(p) => {
                out.violate(format!("legal-call-{}", p.sig()), json!({"requests": format!("{:?}", reqs), "panic": p.json()}));
                return out;
            }
            Ok(Err(e)) => {
                out.inconclusive = Some(format!("base not usable: {}", crate::runner::norm_msg(&e)));
                return out;
            }
            Ok(Ok(x)) => x,
        };
        let raw_out = match sym::decode(&encoded) {
            Ok(r) => r,
            Err(e) => {
                out.violate("output-undecodable".to_string(), json!({"error": e}));
                return out;
            }
        };
        let detail = |extra: serde_json::Value| {
            json!({"base_types": raw_in.types, "requests": reqs.iter().map(|q| format!("{:?}", q)).collect::<Vec<_>>(), "returned": ids,
                   "output_types": raw_out.types, "what": extra})
        };
        // (1) existing types unchanged (content and index)
        for i in 0..n0 as usize {
            if raw_out.types.get(i) != Some(&raw_in.types[i]) {
                out.violate("existing-type-changed".to_string(), detail(json!({"index": i})));
                break;
            }
        }
        // (2) each returned index holds exactly the request; (3) identical request -> identical index
        let mut seen: Vec<(String, u32)> = vec![];
        let mut repeats = 0;
        let mut nonfunc = false;
        for (q, id) in reqs.iter().zip(ids.iter()) {
            let exp = q.expected();
            if !matches!(q, Req::Func { .. }) {
                nonfunc = true;
            }
            match raw_out.types.get(*id as usize) {
                Some(got) if *got == exp => out.ob("type_checked"),
                Some(got) => {
                    let kind = match q {
                        Req::Func { .. } => "func",
                        Req::Array { .. } => "array",
                        Req::Struct { .. } => "struct",
                    };
                    out.violate(
                        format!("{}:field-differs:{}", kind, crate::props::c01::token_delta(&exp, got)),
                        detail(json!({"request": format!("{:?}", q), "expected": exp, "at_returned_index": got, "index": id})),
                    );
                }
                None => out.violate("returned-index-out-of-range".to_string(), detail(json!({"request": format!("{:?}", q), "index": id}))),
            }
            if let Some((_, prev)) = seen.iter().find(|(e, _)| *e == exp) {
                repeats += 1;
                if prev != id {
                    out.violate("not-deduplicated".to_string(), detail(json!({"request": format!("{:?}", q), "first": prev, "again": id})));
                }
            } else {
                seen.push((exp, *id));
            }
        }
        // (4) no types other than the distinct requests were appended
        let appended = raw_out.types.len() as i64 - n0 as i64;
        if appended > seen.len() as i64 {
            out.violate("extra-types-appended".to_string(), detail(json!({"appended": appended, "distinct_requests": seen.len()})));
        }
        out.obn("repeated_requests", repeats);
        if !reqs.iter().any(|q| q.is_shared()) {
            match sym::validate(&encoded) {
                Ok(()) => out.ob("outputs_validated"),
                Err(e) => out.violate(
                    format!("invalid-output:{}", crate::runner::norm_msg(e.split(" (at offset").next().unwrap_or(&e))),
                    detail(json!({"validator": e})),
                ),
            }
        }
        out.nontrivial = repeats >= 1 && (nonfunc || !gc);
        if want_sample {
            out.sample = Some(json!({"profile": g.profile, "base_types": raw_in.types.len(),
                                     "requests": reqs.iter().map(|q| format!("{:?}", q)).collect::<Vec<_>>(), "returned": ids}));
        }
        out
    }
}
