//! C16–C20: generated terminating programs with neutral logging probes, executed in the
//! reference interpreter. (a) the instrumented module validates, (b) results / traps /
//! globals / memory equal the uninstrumented run, (c) the multiset of (probe id, logical
//! tick) equals the multiset a trace-specification monitor derives from the semantic
//! events of the ORIGINAL run.

use crate::gprog;
use crate::interp::{self, Ev, Outcome, Val};
use crate::props::lower::{self, Applied, Inj, Mode, Path, Probe};
use crate::rng::{fnv, fnv_mix, Rng};
use crate::runner::{CaseOut, Prop, Tier};
use crate::sym;
use serde_json::json;
use std::collections::BTreeMap;

pub struct Sem {
    pub id: &'static str,
}

fn site_class(name: &str) -> &'static str {
    match name {
        "Block" => "block",
        "Loop" => "loop",
        "If" => "if",
        "Else" => "else",
        "End" => "end",
        "TryTable" => "try_table",
        "Br" => "br",
        "BrIf" => "br_if",
        "BrTable" => "br_table",
        "BrOnNull" | "BrOnNonNull" => "br_on_null",
        "Call" | "CallIndirect" => "call",
        "Return" | "ReturnCall" | "ReturnCallIndirect" => "return",
        "Unreachable" | "Throw" => "trap-op",
        _ => "plain-op",
    }
}

/// ticks at which the probe of `inj` must fire, derived from the events of the original run.
/// None = timing of this injection is not asserted.
fn expected_ticks(inj: &Inj, ops: &[sym::SymOp], if_of_else: &dyn Fn(usize) -> Option<usize>, events: &[(i64, Ev)]) -> Option<Vec<i64>> {
    let f = inj.func;
    let pc = inj.at;
    let name = ops[pc].name.as_str();
    let structured = matches!(name, "Block" | "Loop" | "If" | "Else" | "End" | "TryTable");
    let mut out = vec![];
    match inj.mode {
        Mode::Before | Mode::Alt => {
            if structured {
                return None;
            }
            for (t, e) in events {
                if matches!(e, Ev::Exec { f: ef, pc: epc } if *ef == f && *epc == pc) {
                    out.push(*t);
                }
            }
        }
        Mode::After => {
            if structured {
                return None;
            }
            for (t, e) in events {
                if matches!(e, Ev::Done { f: ef, pc: epc } if *ef == f && *epc == pc) {
                    out.push(*t);
                }
            }
        }
        Mode::EmptyAlt => return None,
        Mode::FuncEntry => {
            for (t, e) in events {
                if matches!(e, Ev::FuncEnter { f: ef } if *ef == f) {
                    out.push(*t);
                }
            }
        }
        Mode::FuncExit => {
            for (t, e) in events {
                if matches!(e, Ev::FuncExit { f: ef, .. } if *ef == f) {
                    out.push(*t);
                }
            }
        }
        Mode::BlockEntry => {
            for (t, e) in events {
                if matches!(e, Ev::Enter { f: ef, open } if *ef == f && *open == pc) {
                    out.push(*t);
                }
            }
        }
        Mode::BlockExit => {
            for (t, e) in events {
                if matches!(e, Ev::FallThrough { f: ef, open } if *ef == f && *open == pc) {
                    out.push(*t);
                }
            }
        }
        Mode::SemAfter => match name {
            "Block" | "If" | "Else" => {
                let open = if name == "Else" { if_of_else(pc)? } else { pc };
                for (t, e) in events {
                    if matches!(e, Ev::AfterConstruct { f: ef, open: o } if *ef == f && *o == open) {
                        out.push(*t);
                    }
                }
            }
            "Br" | "BrIf" | "BrTable" | "BrOnNull" | "BrOnNonNull" => {
                for (t, e) in events {
                    if let Ev::Branch { f: ef, pc: epc, target_is_loop, .. } = e {
                        if *ef == f && *epc == pc {
                            if *target_is_loop {
                                // outside the property
                                return None;
                            }
                            out.push(*t);
                        }
                    }
                }
            }
            _ => return None,
        },
        _ => return None,
    }
    out.sort();
    Some(out)
}

/// True when, in this call, a flag left set by a taken instrumented branch can be observed again:
/// some targeted construct of function `f` is reached more often than instrumented branches were taken
/// to it, or two different instrumented branch sites share a target (their checks are chained with else).
fn stale_flag_context(f: u32, accepted: &[&Inj], raw: &sym::RawModule, nimp: u32, events: &[(i64, Ev)]) -> bool {
    let ops = &raw.funcs[(f - nimp) as usize].ops;
    let sites: Vec<usize> = accepted
        .iter()
        .filter(|i| i.func == f && i.mode == Mode::SemAfter && matches!(ops[i.at].name.as_str(), "Br" | "BrIf" | "BrTable" | "BrOnNull"))
        .map(|i| i.at)
        .collect();
    let mut sites_per_target: BTreeMap<Option<usize>, Vec<usize>> = BTreeMap::new();
    for s in &sites {
        for t in lower::branch_targets_abs(ops, *s) {
            let e = sites_per_target.entry(t).or_default();
            if !e.contains(s) {
                e.push(*s);
            }
        }
    }
    if sites_per_target.iter().any(|(t, v)| t.is_some() && v.len() >= 2) {
        return true;
    }
    for (t, _) in sites_per_target.iter() {
        let Some(open) = t else { continue };
        let arrivals = events.iter().filter(|(_, e)| matches!(e, Ev::AfterConstruct { f: ef, open: o } if *ef == f && o == open)).count();
        let taken_to = events
            .iter()
            .filter(|(_, e)| matches!(e, Ev::Branch { f: ef, pc, taken: true, target: Some(tg), .. } if *ef == f && sites.contains(pc) && tg == open))
            .count();
        if arrivals > taken_to {
            return true;
        }
    }
    false
}

/// What the CURRENT lowering of semantic-after on branches does (the open findings, modelled exactly, so that only a
/// deviation that is explained by them is filed under them): a per-site i32 flag, zero at function entry, is set in
/// front of the branch and cleared behind it (fall-through), where conditional branches also run the probe; after the
/// `end` of every target construct the flagged bodies of that construct are checked in registration order as
/// `if f1 {p1} else if f2 {p2}` — the first set flag wins, flags are never cleared there; a body whose target is the
/// function label is planned behind the function's final `end` and never runs.
/// Returns uid -> sorted ticks at which that probe fires under this model.
fn known_lowering_ticks(accepted: &[&Inj], raw: &sym::RawModule, nimp: u32, events: &[(i64, Ev)]) -> BTreeMap<u32, Vec<i64>> {
    // per function: instrumented branch sites in instruction order
    let mut site_uid: BTreeMap<(u32, usize), u32> = BTreeMap::new();
    let mut entries: BTreeMap<(u32, usize), Vec<u32>> = BTreeMap::new();
    let mut sorted: Vec<&&Inj> = accepted
        .iter()
        .filter(|i| {
            i.mode == Mode::SemAfter
                && matches!(raw.funcs[(i.func - nimp) as usize].ops[i.at].name.as_str(), "Br" | "BrIf" | "BrTable" | "BrOnNull" | "BrOnNonNull")
        })
        .collect();
    sorted.sort_by_key(|i| (i.func, i.at));
    for i in sorted {
        let ops = &raw.funcs[(i.func - nimp) as usize].ops;
        site_uid.insert((i.func, i.at), i.uid);
        for t in lower::branch_targets_abs(ops, i.at).into_iter().flatten() {
            entries.entry((i.func, t)).or_default().push(i.uid);
        }
    }
    let mut flags: BTreeMap<u32, bool> = BTreeMap::new();
    let mut out: BTreeMap<u32, Vec<i64>> = BTreeMap::new();
    for (t, e) in events {
        match e {
            Ev::FuncEnter { f } => {
                for ((sf, _), uid) in &site_uid {
                    if sf == f {
                        flags.insert(*uid, false);
                    }
                }
            }
            Ev::Branch { f, pc, taken, .. } => {
                if let Some(uid) = site_uid.get(&(*f, *pc)) {
                    flags.insert(*uid, true);
                    if !*taken {
                        flags.insert(*uid, false);
                        out.entry(*uid).or_default().push(*t);
                    }
                }
            }
            Ev::AfterConstruct { f, open } => {
                if let Some(list) = entries.get(&(*f, *open)) {
                    if let Some(uid) = list.iter().find(|u| flags.get(u).copied().unwrap_or(false)) {
                        out.entry(*uid).or_default().push(*t);
                    }
                }
            }
            _ => {}
        }
    }
    for v in out.values_mut() {
        v.sort();
    }
    out
}

fn args_for(rng: &mut Rng, n: usize) -> Vec<Val> {
    (0..n)
        .map(|_| {
            Val::I32(match rng.below(6) {
                0 => 0,
                1 => 1,
                2 => -1,
                3 => gprog::MAGIC,
                _ => (rng.next_u32() & 0xff) as i32,
            })
        })
        .collect()
}

struct RunRes {
    outcome: Outcome,
    globals: Vec<Val>,
    mem: u64,
    probes: Vec<(i32, i64, u32)>,
    events: Vec<(i64, Ev)>,
}

fn run(m: &interp::IModule, func: u32, args: &[Val], events: bool) -> RunRes {
    let mut mach = interp::Machine::new(m, 400_000, events);
    let outcome = mach.invoke(func, args.to_vec());
    RunRes { outcome, globals: mach.globals.clone(), mem: interp::mem_hash(&mach.mem), probes: std::mem::take(&mut mach.probe_log), events: std::mem::take(&mut mach.events) }
}

impl Prop for Sem {
    fn id(&self) -> &'static str {
        self.id
    }
    fn cases(&self, tier: Tier) -> u64 {
        match tier {
            Tier::Quick => 60_000,
            Tier::Thorough => 400_000,
        }
    }
    fn rule(&self) -> String {
        let modes = match self.id {
            "C16" => "all modes (before / after / neutral alternate = probe + original op / removal of nops / every special mode); timing asserted for plain probes on non-structured instructions",
            "C17" => "function entry and exit probes on random subsets of functions (plus a few plain probes)",
            "C18" => "block-entry probes on random block / loop / if / else instructions",
            "C19" => "block-exit probes on random block / loop / if / else instructions (emphasis: constructs nested inside if-arms)",
            _ => "semantic-after probes on block / if / else and on br / br_if / br_table / br_on_null whose targets are blocks, ifs or the function label (branches inside loops, br_table over several depths)",
        };
        format!(
            "generated terminating program (1-5 functions, acyclic calls, bounded loops, blocks with br / br_if / br_table to any depth incl. the function \
             label, if/else, early return, return_call, call_indirect, guarded unreachable / throw, multi-value blocks, masked loads/stores, logical clock \
             `tick`) + plan: {}. Every exported function is run on 3-5 argument vectors in the reference interpreter, original and instrumented. \
             Non-trivial = the original run executes a taken branch, a loop iteration and a call, and >= 2 asserted probes fire; distinct = program + plan + args.",
            modes
        )
    }
    fn assumptions(&self) -> Vec<String> {
        vec![
            "the reference interpreter (harness/src/interp.rs) implements the generated instruction subset per the Wasm spec; out-of-fuel / unsupported = inconclusive".into(),
            "time is the program's own tick counter: probes due at the same tick are compared as a multiset".into(),
            "probes are i32.const <id>; call $probe with $probe imported as function 0, so instrumentation shifts no index space".into(),
        ]
    }
    fn anchors(&self) -> Vec<&'static str> {
        match self.id {
            "C17" => vec!["resolve.func_entry", "resolve.func_exit_wrapper"],
            "C18" => vec!["resolve.block_entry"],
            "C19" => vec!["plan.block_exit.if", "plan.block_exit.block_loop_else"],
            "C20" => vec!["plan.semantic_after.br", "create_bool_flag"],
            _ => vec!["encode_internal"],
        }
    }
    fn run_witness(&self, w: &serde_json::Value) -> Option<CaseOut> {
        if w["wat"].is_string() || w["base_hex"].is_string() {
            let bytes = match w["wat"].as_str() {
                Some(path) => wat::parse_file(format!("{}/{}", std::env::var("VERIF_DIR").unwrap_or_else(|_| "/verif".into()), path)).ok()?,
                None => crate::props::c03::hex_decode(w["base_hex"].as_str()?)?,
            };
            let plan = lower::plan_from_json(&w["plan"])?;
            let calls: Vec<(u32, Vec<Val>)> = w["calls"]
                .as_array()?
                .iter()
                .filter_map(|c| Some((c["func"].as_u64()? as u32, c["args"].as_array()?.iter().filter_map(|a| a.as_i64().map(|v| Val::I32(v as i32))).collect())))
                .collect();
            let pre = lower::pre_from_json(&w["pre"]);
            return Some(self.evaluate(&bytes, plan, calls, w["component_twice"].as_bool().unwrap_or(false), &pre, false));
        }
        match (w["seed"].as_u64(), w["idx"].as_u64()) {
            (Some(s), Some(i)) => Some(self.run_case(s, i, false)),
            _ => None,
        }
    }
    fn run_case(&self, seed: u64, idx: u64, want_sample: bool) -> CaseOut {
        let mut rng = Rng::for_case(seed, self.id, idx);
        match gen_case(self.id, &mut rng) {
            // 1 case in 8: the module sits in a component that is encoded twice; the module of the second encoding is judged
            Ok((bytes, plan, calls)) => {
                // edits of the import side of the function index space before the plan is applied (module path only): the
                // never-called second import is deleted in half of the programs that have one; 1 case in 6 adds an import
                let mut pre = vec![];
                if idx % 8 != 7 {
                    let nimp = sym::decode(&bytes).map(|r| r.n_imp_funcs).unwrap_or(1);
                    if nimp == 2 && rng.bool() {
                        pre.push(lower::PreEdit::DeleteImportFunc(1));
                    }
                    if rng.chance(1, 6) {
                        pre.push(lower::PreEdit::AddImportFunc(0));
                    }
                }
                self.evaluate(&bytes, plan, calls, idx % 8 == 7, &pre, want_sample)
            }
            Err(e) => {
                let mut out = CaseOut::default();
                out.inconclusive = Some(e);
                out
            }
        }
    }
}

/// Program + plan + calls of one C16-C20 case (also part of the scenario pool of C04 / C05).
pub fn gen_case(id: &str, rng: &mut Rng) -> Result<(Vec<u8>, Vec<Inj>, Vec<(u32, Vec<Val>)>), String> {
    let prog = gprog::generate_valid(rng).map_err(|_| "generator reject".to_string())?;
    let raw = sym::decode(&prog.bytes).map_err(|e| format!("decode: {}", e))?;
    // ---- plan
    let mut plan: Vec<Inj> = vec![];
    let mut uid = 100u32;
    let paths = [Path::Iter, Path::Modifier, Path::IterInjectAt, Path::ModifierInjectAt];
    let mut push = |plan: &mut Vec<Inj>, func: u32, at: usize, mode: Mode, probe: Probe, rng: &mut Rng| {
        let mut path = *rng.pick(&paths);
        if matches!(mode, Mode::EmptyAlt | Mode::EmptyBlockAlt | Mode::FuncEntry | Mode::FuncExit) && matches!(path, Path::IterInjectAt | Path::ModifierInjectAt) {
            path = if rng.bool() { Path::Iter } else { Path::Modifier };
        }
        plan.push(Inj { func, at, mode, path, uid, n_ops: 1, leading_drop: false, probe });
        uid += 1;
    };
    for (k, func) in raw.funcs.iter().enumerate() {
        let fid = raw.n_imp_funcs + k as u32;
        let ops = &func.ops;
        let st = lower::structure(ops);
        // br_table sites with >= 3 entries for one target trigger the known ill-formed flag chain: kept rare
        let keep_dense_tables = rng.chance(1, 8);
        let branchy: Vec<usize> = ops
            .iter()
            .enumerate()
            .filter(|(i, o)| {
                matches!(o.name.as_str(), "Br" | "BrIf" | "BrTable" | "BrOnNull")
                    && !lower::branch_target_class(ops, *i).contains("loop")
                    && lower::branch_target_class(ops, *i) != "mixed"
            })
            .filter(|(i, o)| {
                if o.name != "BrTable" || keep_dense_tables {
                    return true;
                }
                let ts = lower::branch_targets_abs(ops, *i);
                !ts.iter().any(|t| ts.iter().filter(|u| *u == t).count() >= 3)
            })
            .map(|(i, _)| i)
            .collect();
        let plain: Vec<usize> = (0..ops.len()).collect();
        match id {
            "C16" => {
                for _ in 0..rng.range(1, 5) {
                    let at = *rng.pick(&plain);
                    let name = ops[at].name.as_str();
                    let structured = matches!(name, "Block" | "Loop" | "If" | "Else" | "End" | "TryTable");
                    // a site whose probe was withdrawn (clear_instr_at) gets no further injection in that mode
                    if plan.iter().any(|i| i.func == fid && i.at == at && i.mode.clears().is_some()) {
                        continue;
                    }
                    match rng.below(9) {
                        0 | 1 => push(&mut plan, fid, at, Mode::Before, Probe::Host, rng),
                        2 | 3 => push(&mut plan, fid, at, Mode::After, Probe::Host, rng),
                        4 if !structured && at + 1 < ops.len() && !plan.iter().any(|i| i.func == fid && i.at == at && i.mode == Mode::Alt) => {
                            push(&mut plan, fid, at, Mode::Alt, Probe::HostThenOrig, rng)
                        }
                        // an alternate on the function's final `end` is not applied (the end is kept): must stay neutral
                        4 if at + 1 == ops.len() && !plan.iter().any(|i| i.func == fid && i.at == at) => push(&mut plan, fid, at, Mode::Alt, Probe::Host, rng),
                        5 if name == "Nop" && !plan.iter().any(|i| i.func == fid && i.at == at) => push(&mut plan, fid, at, Mode::EmptyAlt, Probe::Host, rng),
                        6 if !st.blockish.is_empty() => {
                            let b = *rng.pick(&st.blockish);
                            let m = *rng.pick(&[Mode::BlockEntry, Mode::BlockExit, Mode::SemAfter]);
                            push(&mut plan, fid, b, m, Probe::Host, rng)
                        }
                        7 if !branchy.is_empty() => {
                            let b = *rng.pick(&branchy);
                            push(&mut plan, fid, b, Mode::SemAfter, Probe::Host, rng)
                        }
                        8 => {
                            let m = if rng.bool() { Mode::FuncEntry } else { Mode::FuncExit };
                            if !plan.iter().any(|i| i.func == fid && i.mode == m) {
                                push(&mut plan, fid, 0, m, Probe::Host, rng)
                            }
                        }
                        _ => {}
                    }
                    // 1 in 10: the probe just attached to this site (before / after / alternate) is withdrawn again: it must never fire
                    if rng.chance(1, 10) {
                        if let Some(last) = plan.last().cloned() {
                            let c = match last.mode {
                                Mode::Before => Some(Mode::ClearBefore),
                                Mode::After => Some(Mode::ClearAfter),
                                Mode::Alt | Mode::EmptyAlt => Some(Mode::ClearAlt),
                                _ => None,
                            };
                            if let (Some(c), true) = (c, last.func == fid) {
                                // clears every probe of that mode at the site
                                plan.push(Inj { func: last.func, at: last.at, mode: c, path: if rng.bool() { Path::Iter } else { Path::Modifier }, uid: last.uid, n_ops: 1, leading_drop: false, probe: Probe::Host });
                            }
                        }
                    }
                }
            }
            "C17" => {
                if rng.chance(3, 4) {
                    push(&mut plan, fid, 0, Mode::FuncEntry, Probe::Host, rng);
                }
                if rng.chance(3, 4) {
                    push(&mut plan, fid, 0, Mode::FuncExit, Probe::Host, rng);
                }
                if rng.chance(1, 3) {
                    let at = *rng.pick(&plain);
                    push(&mut plan, fid, at, Mode::Before, Probe::Host, rng);
                    // 1 in 3: withdrawn again (a clear in a function that carries special probes must leave those alone)
                    if rng.chance(1, 3) {
                        let last = plan.last().cloned().unwrap();
                        plan.push(Inj { mode: Mode::ClearBefore, path: if rng.bool() { Path::Iter } else { Path::Modifier }, ..last });
                    }
                }
            }
            "C18" | "C19" => {
                let mode = if id == "C18" { Mode::BlockEntry } else { Mode::BlockExit };
                for b in &st.blockish {
                    if rng.chance(1, 2) {
                        // C18, 1 in 6: a plain `after` probe with the SAME body (same id) on the same construct, before or after
                        // the block-entry probe; both report at every entry
                        let twin = id == "C18" && rng.chance(1, 6);
                        let twin_first = rng.bool();
                        if twin && twin_first {
                            push(&mut plan, fid, *b, Mode::After, Probe::Host, rng);
                        }
                        push(&mut plan, fid, *b, mode, Probe::Host, rng);
                        if twin {
                            let own = plan.last().cloned().unwrap();
                            if twin_first {
                                let n = plan.len();
                                plan[n - 2].uid = own.uid;
                            } else {
                                plan.push(Inj { mode: Mode::After, path: if rng.bool() { Path::Iter } else { Path::Modifier }, ..own });
                            }
                            continue;
                        }
                        let own = plan.last().cloned().unwrap();
                        match rng.below(10) {
                            // the probe is withdrawn again: it must never fire
                            0 => plan.push(Inj {
                                mode: if id == "C18" { Mode::ClearBlockEntry } else { Mode::ClearBlockExit },
                                path: if rng.bool() { Path::Iter } else { Path::Modifier },
                                ..own
                            }),
                            // a special probe of another mode on the same construct, withdrawn again in half of the cases: the
                            // asserted probe must not be touched by that
                            1 | 2 => {
                                let other: Vec<Mode> = [Mode::BlockEntry, Mode::BlockExit, Mode::SemAfter]
                                    .iter()
                                    .cloned()
                                    .filter(|m| *m != mode && (*m != Mode::SemAfter || ops[*b].name != "Loop"))
                                    .collect();
                                let m2 = *rng.pick(&other);
                                push(&mut plan, fid, *b, m2, Probe::Host, rng);
                                if rng.bool() {
                                    let o2 = plan.last().cloned().unwrap();
                                    let c = match m2 {
                                        Mode::BlockEntry => Mode::ClearBlockEntry,
                                        Mode::BlockExit => Mode::ClearBlockExit,
                                        _ => Mode::ClearSemAfter,
                                    };
                                    plan.push(Inj { mode: c, path: if rng.bool() { Path::Iter } else { Path::Modifier }, ..o2 });
                                }
                            }
                            _ => {}
                        }
                    }
                }
                // 1 function in 3: an ordinary probe issued AFTER the special ones in the same function
                if rng.chance(1, 3) {
                    let at = *rng.pick(&plain);
                    push(&mut plan, fid, at, Mode::Before, Probe::Host, rng);
                    // 1 in 3: withdrawn again (a clear in a function that carries special probes must leave those alone)
                    if rng.chance(1, 3) {
                        let last = plan.last().cloned().unwrap();
                        plan.push(Inj { mode: Mode::ClearBefore, path: if rng.bool() { Path::Iter } else { Path::Modifier }, ..last });
                    }
                }
            }
            _ => {
                for b in &st.blockish {
                    if ops[*b].name != "Loop" && rng.chance(1, 3) {
                        push(&mut plan, fid, *b, Mode::SemAfter, Probe::Host, rng);
                        // 1 in 8: withdrawn again (must never fire)
                        if rng.chance(1, 8) {
                            let own = plan.last().cloned().unwrap();
                            plan.push(Inj { mode: Mode::ClearSemAfter, path: if rng.bool() { Path::Iter } else { Path::Modifier }, ..own });
                        }
                    }
                }
                for b in &branchy {
                    if rng.chance(1, 2) {
                        push(&mut plan, fid, *b, Mode::SemAfter, Probe::Host, rng);
                    }
                }
                if rng.chance(1, 3) {
                    let at = *rng.pick(&plain);
                    push(&mut plan, fid, at, Mode::Before, Probe::Host, rng);
                    // 1 in 3: withdrawn again (a clear in a function that carries special probes must leave those alone)
                    if rng.chance(1, 3) {
                        let last = plan.last().cloned().unwrap();
                        plan.push(Inj { mode: Mode::ClearBefore, path: if rng.bool() { Path::Iter } else { Path::Modifier }, ..last });
                    }
                }
            }
        }
        // C17-C20: 1 function in 3 also carries probes of OTHER special modes (not asserted here; they must not disturb the asserted ones)
        if id != "C16" && rng.chance(1, 3) {
            let own = match id {
                "C18" => Mode::BlockEntry,
                "C19" => Mode::BlockExit,
                "C20" => Mode::SemAfter,
                _ => Mode::FuncEntry,
            };
            for _ in 0..rng.range(1, 2) {
                let m = *rng.pick(&[Mode::BlockEntry, Mode::BlockExit, Mode::SemAfter, Mode::FuncEntry, Mode::FuncExit]);
                if m == own || (id == "C17" && m == Mode::FuncExit) {
                    continue;
                }
                match m {
                    Mode::FuncEntry | Mode::FuncExit => {
                        if !plan.iter().any(|i| i.func == fid && i.mode == m) {
                            push(&mut plan, fid, 0, m, Probe::Host, rng);
                        }
                    }
                    _ => {
                        let c: Vec<usize> = st.blockish.iter().cloned().filter(|b| m != Mode::SemAfter || ops[*b].name != "Loop").collect();
                        if !c.is_empty() {
                            let b = *rng.pick(&c);
                            if !plan.iter().any(|i| i.func == fid && i.at == b && i.mode == m) {
                                push(&mut plan, fid, b, m, Probe::Host, rng);
                            }
                        }
                    }
                }
            }
        }
    }
    // neutral block alternates: a `block; <tick>; end` construct is replaced by a copy of the tick (1 in 2 such constructs).
    // Nothing else is planned on or inside the replaced construct; function-level probes stay (also when the construct is
    // the first instruction of the function).
    for (k, func) in raw.funcs.iter().enumerate() {
        let fid = raw.n_imp_funcs + k as u32;
        let ops = &func.ops;
        let pat = ["Block", "GlobalGet", "I64Const", "I64Add", "GlobalSet", "End"];
        let mut i = 0;
        while i + pat.len() <= ops.len() {
            if (0..pat.len()).all(|j| ops[i + j].name == pat[j]) {
                if rng.bool() {
                    plan.retain(|x| !(x.func == fid && x.at >= i && x.at < i + pat.len() && !matches!(x.mode, Mode::FuncEntry | Mode::FuncExit)));
                    // C18, 1 in 2: a block-entry probe on the replaced construct itself, issued before or after the alternate:
                    // it disappears with the construct (never fires)
                    let doomed = id == "C18" && rng.bool();
                    let doomed_first = rng.bool();
                    if doomed && doomed_first {
                        push(&mut plan, fid, i, Mode::BlockEntry, Probe::Host, rng);
                    }
                    push(&mut plan, fid, i, Mode::BlockAlt, Probe::TickCopy, rng);
                    if doomed && !doomed_first {
                        push(&mut plan, fid, i, Mode::BlockEntry, Probe::Host, rng);
                    }
                }
                i += pat.len();
            } else {
                i += 1;
            }
        }
    }
    // function-level modes last (they are sticky on iterators)
    plan.sort_by_key(|i| matches!(i.mode, Mode::FuncEntry | Mode::FuncExit));
    // C17: after function-level probes were issued through an iterator, a FunctionModifier obtained for the same function starts
    // with a clean mode: an ordinary probe injected through it belongs to its instruction (1 function in 4)
    if id == "C17" {
        let mut extra = vec![];
        for i in plan.iter().filter(|i| matches!(i.mode, Mode::FuncEntry | Mode::FuncExit) && i.path == Path::Iter) {
            if rng.chance(1, 4) && !extra.iter().any(|e: &Inj| e.func == i.func) {
                let n = raw.funcs[(i.func - raw.n_imp_funcs) as usize].ops.len();
                let at = rng.below(n);
                // (not on or inside a construct that a neutral block alternate replaces)
                if plan.iter().any(|x| x.probe == Probe::TickCopy && x.func == i.func && at >= x.at && at < x.at + 6) {
                    continue;
                }
                extra.push(Inj { func: i.func, at, mode: Mode::Before, path: Path::Modifier, uid, n_ops: 1, leading_drop: false, probe: Probe::Host });
                uid += 1;
            }
        }
        plan.extend(extra);
    }
    if plan.is_empty() {
        return Err("empty plan (no applicable site)".into());
    }
    // ---- calls
    let mut calls = vec![];
    for (k, (np, _)) in prog.sigs.iter().enumerate() {
        for _ in 0..rng.range(2, 4) {
            calls.push((k as u32 + prog.nimp, args_for(rng, *np)));
        }
    }
    Ok((prog.bytes, plan, calls))
}

impl Sem {
    fn evaluate(&self, base: &[u8], plan: Vec<Inj>, calls: Vec<(u32, Vec<Val>)>, component_twice: bool, pre: &[lower::PreEdit], want_sample: bool) -> CaseOut {
        let mut out = CaseOut::default();
        let apply = |b: &[u8], p: &[Inj]| {
            if component_twice {
                lower::apply_component_n(b, p, &mut Rng::new(7, 7), 2)
            } else {
                lower::apply_module_pre(b, pre, p, 1).map(|(s, mut e, l)| (s, e.remove(0), l))
            }
        };
        out.ob(if component_twice { "path:component-encoded-twice" } else { "path:module" });
        // local functions of the instrumented module are shifted by the pre-edits
        let mut shift: i64 = 0;
        for e in pre {
            match e {
                lower::PreEdit::DeleteImportFunc(_) => {
                    shift -= 1;
                    out.ob("pre-edit:delete-import-func");
                }
                lower::PreEdit::AddImportFunc(_) => {
                    shift += 1;
                    out.ob("pre-edit:add-import-func");
                }
            }
        }
        let raw = match sym::decode(base) {
            Ok(r) => r,
            Err(e) => {
                out.inconclusive = Some(format!("decode: {}", e));
                return out;
            }
        };
        let nimp = raw.n_imp_funcs;
        out.fp = fnv_mix(fnv(base), fnv(format!("{:?}{:?}", plan, calls).as_bytes()));
        let plan_json: Vec<String> = plan.iter().map(|i| format!("{:?}", i)).collect();
        let witness = || {
            json!({"base_hex": base.iter().map(|b| format!("{:02x}", b)).collect::<String>(), "plan": lower::plan_to_json(&plan), "component_twice": component_twice, "pre": lower::pre_to_json(pre),
                   "calls": calls.iter().map(|(f, a)| json!({"func": f, "args": a.iter().map(|v| match v { Val::I32(x) => *x as i64, Val::I64(x) => *x, _ => 0 }).collect::<Vec<_>>()})).collect::<Vec<_>>()})
        };
        let base_wat = || crate::props::c01::text_of(base);
        for i in &plan {
            out.ob(format!("mode:{:?}@{}", i.mode, site_class(&raw.funcs[(i.func - nimp) as usize].ops[i.at].name)));
        }
        let (status, enc, _logs) = match apply(base, &plan) {
            Ok(x) => x,
            Err(e) if e.starts_with("legal-call-panic") => {
                out.violate(format!("legal-call:{}", e.split(": ").last().unwrap_or("")), json!({"plan": plan_json, "error": e, "explicit_witness": witness(), "base_wat": base_wat()}));
                return out;
            }
            Err(e) => {
                out.inconclusive = Some(format!("base not usable: {}", crate::runner::norm_msg(&e)));
                return out;
            }
        };
        let instrumented = match enc {
            Ok(b) => b,
            Err(p) => {
                out.violate(format!("encode-{}", p.sig()), json!({"plan": plan_json, "panic": p.json(), "explicit_witness": witness(), "base_wat": base_wat()}));
                return out;
            }
        };
        let accepted: Vec<&Inj> = plan.iter().zip(status.iter()).filter(|(_, s)| matches!(s, Applied::Accepted)).map(|(i, _)| i).collect();
        let mode_sites = |injs: &[&Inj]| -> String {
            let mut v: Vec<String> =
                injs.iter().map(|i| format!("{:?}@{}", i.mode, site_class(&raw.funcs[(i.func - nimp) as usize].ops[i.at].name))).collect();
            v.sort();
            v.dedup();
            v.join("+")
        };
        // (a) validity
        if let Err(e) = sym::validate(&instrumented) {
            // attribute: greedily drop injections while the output stays invalid (1-minimal culprit set)
            let mut culprit: Vec<Inj> = accepted.iter().map(|i| (*i).clone()).collect();
            let mut k = 0;
            while k < culprit.len() && culprit.len() > 1 {
                let mut trial = culprit.clone();
                trial.remove(k);
                let still_invalid = match apply(base, &trial) {
                    Ok((_, Ok(b), _)) => sym::validate(&b).is_err(),
                    _ => false,
                };
                if still_invalid {
                    culprit = trial;
                } else {
                    k += 1;
                }
            }
            let refs: Vec<&Inj> = culprit.iter().collect();
            let mut cls = mode_sites(&refs);
            // how many flagged semantic-after bodies resolve at one block end?
            let mut tally: BTreeMap<(u32, Option<usize>), usize> = BTreeMap::new();
            for i in &culprit {
                let ops = &raw.funcs[(i.func - nimp) as usize].ops;
                if i.mode == Mode::SemAfter && matches!(ops[i.at].name.as_str(), "Br" | "BrIf" | "BrTable" | "BrOnNull") {
                    for t in lower::branch_targets_abs(ops, i.at) {
                        *tally.entry((i.func, t)).or_insert(0) += 1;
                    }
                }
            }
            let only_sem_branches = culprit.iter().all(|i| {
                i.mode == Mode::SemAfter && matches!(raw.funcs[(i.func - nimp) as usize].ops[i.at].name.as_str(), "Br" | "BrIf" | "BrTable" | "BrOnNull")
            });
            if only_sem_branches && tally.values().any(|n| *n >= 3) && e.contains("else found outside") {
                cls = "SemAfter@branches:>=3-flagged-bodies-at-one-end".to_string();
                culprit.clear();
            }
            for i in &culprit {
                let ops = &raw.funcs[(i.func - nimp) as usize].ops;
                if matches!(ops[i.at].name.as_str(), "Br" | "BrIf" | "BrTable" | "BrOnNull") {
                    cls.push_str(&format!("→{}", lower::branch_target_class(ops, i.at)));
                    if ops[i.at].name == "BrTable" {
                        cls.push_str(&format!("x{}", lower::branch_depths(&ops[i.at]).len().min(4)));
                    }
                }
            }
            out.violate(
                format!("invalid-output:{}|{}", crate::runner::norm_msg(e.split(" (at offset").next().unwrap_or(&e)), cls),
                json!({"plan": plan_json, "minimal_culprit": culprit.iter().map(|i| format!("{:?}", i)).collect::<Vec<_>>(), "validator": e,
                       "explicit_witness": witness(), "base_wat": base_wat(), "instrumented_wat": crate::props::c01::text_of(&instrumented)}),
            );
            return out;
        }
        out.ob("instrumented_validated");
        let m0 = match interp::load(base) {
            Ok(m) => m,
            Err(e) => {
                out.inconclusive = Some(format!("interpreter cannot load the original: {}", e));
                return out;
            }
        };
        let m1 = match interp::load(&instrumented) {
            Ok(m) => m,
            Err(e) => {
                out.inconclusive = Some(format!("interpreter cannot load the instrumented module: {}", e));
                return out;
            }
        };
        let mut fired_asserted = 0usize;
        let mut saw_taken = false;
        let mut saw_loop = false;
        let mut saw_call = false;
        for (func, args) in &calls {
            let r0 = run(&m0, *func, args, true);
            let r1 = run(&m1, (*func as i64 + shift) as u32, args, false);
            match (&r0.outcome, &r1.outcome) {
                (Outcome::OutOfFuel, _) | (_, Outcome::OutOfFuel) => {
                    out.ob("call-out-of-fuel(inconclusive)");
                    continue;
                }
                (Outcome::Unsupported(s), _) | (_, Outcome::Unsupported(s)) => {
                    out.ob(format!("call-unsupported(inconclusive):{}", crate::runner::norm_msg(s).chars().take(40).collect::<String>()));
                    continue;
                }
                _ => {}
            }
            out.ob(match &r0.outcome {
                Outcome::Results(_) => "outcome:results",
                Outcome::Trap(_) => "outcome:trap",
                Outcome::Exception(_) => "outcome:exception",
                _ => "outcome:other",
            });
            for (_, e) in &r0.events {
                match e {
                    Ev::Branch { taken: true, .. } => saw_taken = true,
                    Ev::Enter { f, open } => {
                        if raw.funcs[(*f - nimp) as usize].ops[*open].name == "Loop" {
                            saw_loop = true
                        }
                    }
                    Ev::FuncEnter { f } if *f != *func => saw_call = true,
                    _ => {}
                }
            }
            // (b) behaviour
            if r0.outcome != r1.outcome {
                out.violate(
                    format!("result-differs|{}", mode_sites(&accepted.iter().filter(|i| i.mode.special() || matches!(i.mode, Mode::Alt | Mode::EmptyAlt)).cloned().collect::<Vec<_>>())),
                    json!({"plan": plan_json, "call": format!("f{}({:?})", func, args), "original": format!("{:?}", r0.outcome),
                           "instrumented": format!("{:?}", r1.outcome), "explicit_witness": witness(), "base_wat": base_wat()}),
                );
                continue;
            }
            if r0.globals != r1.globals || r0.mem != r1.mem {
                out.violate(
                    format!("state-differs|{}", mode_sites(&accepted)),
                    json!({"plan": plan_json, "call": format!("f{}({:?})", func, args), "globals_original": format!("{:?}", r0.globals),
                           "globals_instrumented": format!("{:?}", r1.globals), "explicit_witness": witness(), "base_wat": base_wat()}),
                );
                continue;
            }
            out.ob("behaviour_equal");
            // (c) probe timing
            let mut observed: BTreeMap<i32, Vec<i64>> = BTreeMap::new();
            for (id, t, _) in &r1.probes {
                observed.entry(*id).or_default().push(*t);
            }
            for v in observed.values_mut() {
                v.sort();
            }
            for inj in &accepted {
                let lf = (inj.func - nimp) as usize;
                let ops = &raw.funcs[lf].ops;
                let ioe = |pc: usize| m0.funcs[lf].if_of_else.get(&pc).cloned();
                let relevant = match self.id {
                    "C16" => matches!(inj.mode, Mode::Before | Mode::After | Mode::Alt),
                    "C17" => matches!(inj.mode, Mode::FuncEntry | Mode::FuncExit | Mode::Before),
                    "C18" => inj.mode == Mode::BlockEntry,
                    "C19" => inj.mode == Mode::BlockExit,
                    _ => inj.mode == Mode::SemAfter,
                };
                if !relevant {
                    continue;
                }
                let Some(mut exp) = expected_ticks(inj, ops, &ioe, &r0.events) else { continue };
                // withdrawn by a later clear_instr_at of that mode at the site: must never fire
                let pos = plan.iter().position(|p| std::ptr::eq(p, *inj)).unwrap_or(0);
                let kind = match inj.mode {
                    Mode::Before => Some(Mode::ClearBefore),
                    Mode::After => Some(Mode::ClearAfter),
                    Mode::Alt | Mode::EmptyAlt => Some(Mode::ClearAlt),
                    Mode::BlockEntry => Some(Mode::ClearBlockEntry),
                    Mode::BlockExit => Some(Mode::ClearBlockExit),
                    Mode::SemAfter => Some(Mode::ClearSemAfter),
                    _ => None,
                };
                // on a construct that a (neutral) block alternate replaces: gone with the construct
                // (function-level probes carry position 0 but belong to the function, not to its first instruction)
                if !matches!(inj.mode, Mode::FuncEntry | Mode::FuncExit)
                    && accepted.iter().any(|p| p.probe == Probe::TickCopy && p.func == inj.func && inj.at >= p.at && inj.at < p.at + 6)
                {
                    exp.clear();
                    out.ob("probe-on-replaced-construct_checked");
                }
                // a plain `after` probe with the same body on the same construct (C18) reports at the same moments
                if inj.mode == Mode::BlockEntry {
                    let twins = accepted.iter().filter(|p| p.mode == Mode::After && p.uid == inj.uid && p.func == inj.func && p.at == inj.at).count();
                    if twins > 0 {
                        out.ob("same-body-after-twin_checked");
                        let one = exp.clone();
                        for _ in 0..twins {
                            exp.extend(one.iter().cloned());
                        }
                        exp.sort();
                    }
                }
                if let Some(k) = kind {
                    if plan.iter().skip(pos + 1).any(|p| p.func == inj.func && p.at == inj.at && p.mode == k) {
                        exp.clear();
                        out.ob("withdrawn_probe_checked");
                    }
                }
                let got = observed.get(&(inj.uid as i32)).cloned().unwrap_or_default();
                out.obn("probe_firings_compared", exp.len() as u64);
                fired_asserted += exp.len();
                if exp != got {
                    // multiset inclusion
                    let sub = |a: &Vec<i64>, b: &Vec<i64>| -> bool {
                        let mut b = b.clone();
                        a.iter().all(|x| match b.iter().position(|y| y == x) {
                            Some(p) => {
                                b.remove(p);
                                true
                            }
                            None => false,
                        })
                    };
                    let kind = if got.len() < exp.len() && sub(&got, &exp) {
                        "probe-missing"
                    } else if got.len() > exp.len() && sub(&exp, &got) {
                        "probe-extra"
                    } else {
                        "probe-wrong-tick"
                    };
                    let name = ops[inj.at].name.as_str();
                    let mut cls = format!("{:?}@{}", inj.mode, site_class(name));
                    if matches!(name, "Br" | "BrIf" | "BrTable" | "BrOnNull") {
                        if inj.mode == Mode::SemAfter {
                            // Is the deviation exactly what the known (open) defects of the lowering produce for this execution?
                            let known = known_lowering_ticks(&accepted, &raw, nimp, &r0.events).remove(&inj.uid).unwrap_or_default();
                            let targets = lower::branch_targets_abs(ops, inj.at);
                            if got == known {
                                let cause = match (targets.iter().any(|t| t.is_none()), targets.iter().any(|t| t.is_some())) {
                                    (true, false) => "func-label",
                                    (true, true) => "func-label+flag-protocol",
                                    _ => "flag-protocol",
                                };
                                out.violate(
                                    format!("probe-timing:SemAfter@branch|as-known-lowering:{}", cause),
                                    json!({"plan": plan_json, "injection": format!("{:?}", inj), "call": format!("f{}({:?})", func, args), "expected_ticks": exp,
                                           "observed_ticks": got, "note": "observed == model of the known lowering defects", "explicit_witness": witness(), "base_wat": base_wat()}),
                                );
                                continue;
                            }
                            cls = format!("{:?}@branch→{}|not-explained-by-known-lowering", inj.mode, lower::branch_target_class(ops, inj.at));
                        } else {
                            cls = format!("{}→{}", cls, lower::branch_target_class(ops, inj.at));
                        }
                    }
                    if inj.mode == Mode::FuncExit {
                        // which exit causes occurred
                        let mut causes: Vec<String> = r0
                            .events
                            .iter()
                            .filter_map(|(_, e)| if let Ev::FuncExit { f, cause } = e { if *f == inj.func { Some(format!("{:?}", cause)) } else { None } } else { None })
                            .collect();
                        causes.sort();
                        causes.dedup();
                        cls = format!("{}[{}]", cls, causes.join(","));
                    }
                    if inj.mode == Mode::BlockExit && name == "If" {
                        // does the then-arm contain a nested construct?
                        let st = lower::structure(ops);
                        let end = st.else_of.get(&inj.at).or(st.end_of.get(&inj.at)).copied().unwrap_or(inj.at);
                        if ops[inj.at + 1..end].iter().any(|o| matches!(o.name.as_str(), "Block" | "Loop" | "If")) {
                            cls.push_str("+nested-construct-in-then-arm");
                        }
                    }
                    out.violate(
                        format!("{}:{}", kind, cls),
                        json!({"plan": plan_json, "injection": format!("{:?}", inj), "call": format!("f{}({:?})", func, args),
                               "expected_ticks": exp, "observed_ticks": got, "explicit_witness": witness(), "base_wat": base_wat(),
                               "instrumented_wat": crate::props::c01::text_of(&instrumented)}),
                    );
                }
            }
        }
        out.nontrivial = saw_taken && saw_loop && saw_call && fired_asserted >= 2;
        if want_sample {
            out.sample = Some(json!({"plan": plan_json, "calls": calls.iter().map(|(f, a)| format!("f{}({:?})", f, a)).collect::<Vec<_>>(),
                                     "wat_head": base_wat().lines().take(60).collect::<Vec<_>>().join("\n"), "asserted_firings": fired_asserted}));
        }
        out
    }
}
