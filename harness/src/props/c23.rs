//! C23 — the side-effect report lists exactly the tagged additions and probes.
//!
//! Conservation monitor: every addition / probe the driver issues carries a unique non-empty
//! tag; `pull_side_effects()` must return exactly one record per issued tag, of the right
//! kind, with that tag and the requested content, nothing else; and the code bodies of probe
//! records must be, operand for operand, what `encode()` emits for the same probe (same index
//! space as the encoded module). The same op list is applied to two separately parsed copies:
//! A is asked for its side effects (and encoded afterwards), B is only encoded.

use crate::gen::{self, GenModule, VT};
use crate::props::hist;
use crate::props::lower::structure;
use crate::rng::{fnv, fnv_mix, Rng};
use crate::runner::{catch, CaseOut, PanicInfo, Prop, Tier};
use crate::sym::{self, RefKind, SymOp};
use serde_json::json;
use std::collections::BTreeMap;
use wasmparser::Operator as O;
use wirm::ir::function::FunctionBuilder;
use wirm::ir::id::{FunctionID, TypeID};
use wirm::ir::module::side_effects::{InjectType, Injection};
use wirm::ir::types::{DataSegment, DataSegmentKind, FuncInstrMode, HasInjectTag, InitExpr, InitInstr, InstrumentationMode as IM, Location, Tag, Value};
use wirm::iterator::iterator_trait::{IteratingInstrumenter, Iterator as WI};
use wirm::iterator::module_iterator::ModuleIterator;
use wirm::opcode::{Inject, Instrumenter};
use wirm::DataType;

pub struct C23;

const MARK: u32 = 0x6100_0000;

#[derive(Clone, Debug)]
enum Op {
    Type { params: Vec<DataType>, results: Vec<DataType> },
    ImportFunc { name: String, ty: u32 },
    ImportGlobal { name: String, dt: DataType, mutable: bool },
    ImportMem { name: String, initial: u64 },
    ExportFunc { name: String, target: u32 },
    ExportMem { name: String, target: u32 },
    Func { params: Vec<DataType>, results: Vec<DataType>, locals: Vec<DataType>, body: Vec<O<'static>>, name: Option<String> },
    Global { dt: DataType, mutable: bool, value: i64 },
    LocalMem { initial: u64, maximum: Option<u64> },
    PassiveData { payload: Vec<u8> },
    ActiveData { mem: u32, off: i32, payload: Vec<u8> },
    /// plain probe at an instruction: mode ∈ Before / After / Alternate
    Probe { func: u32, at: usize, mode: u8, via_iter: bool, body: Vec<O<'static>>, tag_chunks: usize },
    /// special-mode probe (block entry / exit / semantic after) — separate signature class
    Special { func: u32, at: usize, mode: u8, body: Vec<O<'static>> },
    FuncProbe { func: u32, exit: bool, body: Vec<O<'static>> },
}

#[derive(Clone, Debug)]
struct Issued {
    op: Op,
    tag: Vec<u8>,
    uid: u32,
}

fn kind_of(op: &Op) -> &'static str {
    match op {
        Op::Type { .. } => "type",
        Op::ImportFunc { .. } | Op::ImportGlobal { .. } | Op::ImportMem { .. } => "import",
        Op::ExportFunc { .. } | Op::ExportMem { .. } => "export",
        Op::Func { .. } => "func",
        Op::Global { .. } => "global",
        Op::LocalMem { .. } => "memory",
        Op::PassiveData { .. } | Op::ActiveData { .. } => "data",
        Op::Probe { .. } | Op::Special { .. } | Op::FuncProbe { .. } => "probe",
    }
}

fn dts(v: &[DataType]) -> String {
    v.iter().map(|d| format!("{:?}", d)).collect::<Vec<_>>().join(",")
}

/// body ops with indices masked (content) + the indices (index space)
fn masked(ops: &[O<'_>]) -> (Vec<String>, Vec<(RefKind, u32)>) {
    let mut m = vec![];
    let mut r = vec![];
    for o in ops {
        match sym::sym_op(o) {
            Ok(SymOp { bytes, refs, name }) => {
                m.push(format!("{}:{}", name, bytes.iter().map(|b| format!("{:02x}", b)).collect::<String>()));
                r.extend(refs);
            }
            Err(e) => m.push(format!("<unencodable {}>", e)),
        }
    }
    (m, r)
}

fn im_of(mode: u8) -> IM {
    match mode {
        0 => IM::Before,
        1 => IM::After,
        _ => IM::Alternate,
    }
}

/// Apply the issued list to a module; returns the ids the library returned (per op, u32::MAX if none).
fn apply<'a>(m: &mut wirm::Module<'a>, issued: &[Issued]) -> Vec<(u32, u32)> {
    let mut ret = vec![];
    for is in issued {
        let tag = Tag::new(is.tag.clone());
        let r = match is.op.clone() {
            Op::Type { params, results } => *m.types.add_func_type(&params, &results, Some(tag)),
            Op::ImportFunc { name, ty } => *m.add_import_func_with_tag("env".into(), name, TypeID(ty), tag).0,
            Op::ImportGlobal { name, dt, mutable } => *m.add_imported_global_with_tag("env".into(), name, dt, mutable, false, tag).0,
            Op::ImportMem { name, initial } => {
                *m.add_import_memory_with_tag("env".into(), name, wasmparser::MemoryType { memory64: false, shared: false, initial, maximum: Some(initial + 7), page_size_log2: None }, tag)
                    .0
            }
            Op::ExportFunc { name, target } => {
                m.exports.add_export_func(name, target, Some(tag));
                u32::MAX
            }
            Op::ExportMem { name, target } => {
                m.exports.add_export_mem(name, target, Some(tag));
                u32::MAX
            }
            Op::Func { params, results, locals, body, name } => {
                let mut fb = FunctionBuilder::new(&params, &results);
                for l in &locals {
                    use wirm::module_builder::AddLocal;
                    fb.add_local(*l);
                }
                for o in body {
                    fb.inject(o);
                }
                if let Some(n) = name {
                    fb.set_name(n);
                }
                let fid = fb.finish_module_with_tag(m, tag);
                let ty = *m.functions.get_type_id(fid);
                ret.push((*fid, ty));
                continue;
            }
            Op::Global { dt, mutable, value } => {
                let v = match dt {
                    DataType::I32 => Value::I32(value as i32),
                    DataType::I64 => Value::I64(value),
                    DataType::F32 => Value::F32(f32::from_bits(value as u32 & 0x7f7f_ffff)),
                    _ => Value::F64(f64::from_bits(value as u64 & 0x7fef_ffff_ffff_ffff)),
                };
                *m.add_global_with_tag(InitExpr::new(vec![InitInstr::Value(v)]), dt, mutable, false, tag)
            }
            Op::LocalMem { initial, maximum } => *m.add_local_memory_with_tag(wasmparser::MemoryType { memory64: false, shared: false, initial, maximum, page_size_log2: None }, tag),
            Op::PassiveData { payload } => *m.add_data(DataSegment { kind: DataSegmentKind::Passive, data: payload, tag: Some(tag) }),
            Op::ActiveData { mem, off, payload } => *m.add_data(DataSegment {
                kind: DataSegmentKind::Active { memory_index: mem, offset_expr: InitExpr::new(vec![InitInstr::Value(Value::I32(off))]) },
                data: payload,
                tag: Some(tag),
            }),
            Op::Probe { func, at, mode, via_iter, body, tag_chunks } => {
                let loc = Location::Module { func_idx: FunctionID(func), instr_idx: at };
                // the tag arrives in `tag_chunks` pieces (append semantics)
                let chunks: Vec<Vec<u8>> = {
                    let n = tag_chunks.max(1).min(is.tag.len());
                    let sz = is.tag.len().div_ceil(n);
                    is.tag.chunks(sz).map(|c| c.to_vec()).collect()
                };
                if via_iter {
                    let mut it = ModuleIterator::new(m, &vec![]);
                    loop {
                        if let (Location::Module { func_idx, instr_idx }, _) = it.curr_loc() {
                            if *func_idx == func && instr_idx == at {
                                break;
                            }
                        }
                        if it.next().is_none() {
                            panic!("harness: iterator never reached {:?}", loc);
                        }
                    }
                    match mode {
                        0 => {
                            it.before();
                        }
                        1 => {
                            it.after();
                        }
                        _ => {
                            it.alternate();
                        }
                    }
                    let mut chunks = chunks.into_iter();
                    if let Some(c) = chunks.next() {
                        it.append_to_tag(c);
                    }
                    for o in body {
                        it.inject(o);
                    }
                    for c in chunks {
                        it.append_to_tag(c);
                    }
                } else {
                    let mut fm = m.functions.get_fn_modifier(FunctionID(func)).expect("modifier");
                    match mode {
                        0 => {
                            fm.before_at(loc);
                        }
                        1 => {
                            fm.after_at(loc);
                        }
                        _ => {
                            fm.alternate_at(loc);
                        }
                    }
                    for o in body {
                        fm.inject(o);
                    }
                    for c in chunks {
                        fm.append_tag_at(c, loc);
                    }
                }
                u32::MAX
            }
            Op::Special { func, at, mode, body } => {
                let loc = Location::Module { func_idx: FunctionID(func), instr_idx: at };
                let mut fm = m.functions.get_fn_modifier(FunctionID(func)).expect("modifier");
                match mode {
                    0 => {
                        fm.block_entry_at(loc);
                    }
                    1 => {
                        fm.block_exit_at(loc);
                    }
                    _ => {
                        fm.semantic_after_at(loc);
                    }
                }
                for o in body {
                    fm.inject(o);
                }
                fm.append_tag_at(is.tag.clone(), loc);
                u32::MAX
            }
            Op::FuncProbe { func, exit, body } => {
                let loc = Location::Module { func_idx: FunctionID(func), instr_idx: 0 };
                let mut fm = m.functions.get_fn_modifier(FunctionID(func)).expect("modifier");
                if exit {
                    fm.func_exit();
                } else {
                    fm.func_entry();
                }
                for o in body {
                    fm.inject(o);
                }
                fm.append_tag_at(is.tag.clone(), loc);
                fm.finish_instr();
                u32::MAX
            }
        };
        ret.push((r, r));
    }
    ret
}

struct Rec {
    kind: &'static str,
    tag: Vec<u8>,
    /// content with indices masked
    content: String,
    /// indices found in the record (index space question)
    refs: Vec<(RefKind, u32)>,
    /// location of a probe (fid, opcode idx)
    loc: Option<(u32, Option<u32>)>,
    /// the index field of an export / the memory index of an active data segment / ids of funcs, globals, memories
    id: Option<u32>,
}

fn rec_of(ty: InjectType, inj: &Injection) -> Rec {
    let kind = match ty {
        InjectType::Type => "type",
        InjectType::Import => "import",
        InjectType::Export => "export",
        InjectType::Memory => "memory",
        InjectType::Data => "data",
        InjectType::Global => "global",
        InjectType::Func => "func",
        InjectType::Local => "local",
        InjectType::Table => "table",
        InjectType::Element => "element",
        InjectType::Probe => "probe",
    };
    let mut r = Rec { kind, tag: vec![], content: String::new(), refs: vec![], loc: None, id: None };
    match inj {
        Injection::Import { module, name, type_ref, tag } => {
            r.tag = tag.data().clone();
            r.content = format!("import {}.{} {:?}", module, name, type_ref);
        }
        Injection::Export { name, kind, index, tag } => {
            r.tag = tag.data().clone();
            r.content = format!("export {} {:?}", name, kind);
            r.id = Some(*index);
        }
        Injection::Type { ty, tag } => {
            r.tag = tag.data().clone();
            r.content = match ty {
                wirm::ir::module::module_types::Types::FuncType { params, results, super_type, is_final, shared, .. } => {
                    format!("functype ({})->({}) super={:?} final={} shared={}", dts(params), dts(results), super_type, is_final, shared)
                }
                other => format!("{:?}", other),
            };
        }
        Injection::Memory { id, initial, maximum, tag } => {
            r.tag = tag.data().clone();
            r.content = format!("memory initial={} max={:?}", initial, maximum);
            r.id = Some(*id);
        }
        Injection::PassiveData { data, tag } => {
            r.tag = tag.data().clone();
            r.content = format!("passive {}", data.iter().map(|b| format!("{:02x}", b)).collect::<String>());
        }
        Injection::ActiveData { memory_index, offset_expr, data, tag } => {
            r.tag = tag.data().clone();
            r.content = format!("active off={:?} {}", offset_expr.exprs, data.iter().map(|b| format!("{:02x}", b)).collect::<String>());
            r.id = Some(*memory_index);
        }
        Injection::Global { id, ty, shared, mutable, init_expr, tag } => {
            r.tag = tag.data().clone();
            r.content = format!("global {:?} mut={} shared={} init={:?}", ty, mutable, shared, init_expr.exprs);
            r.id = Some(*id);
        }
        Injection::Func { id, fname, sig, locals, body, tag } => {
            r.tag = tag.data().clone();
            let ops: Vec<O> = body.iter().map(|i| i.op.clone()).collect();
            let (m, refs) = masked(&ops);
            r.content = format!("func name={:?} ({})->({}) locals=[{}] body={}", fname, dts(&sig.0), dts(&sig.1), dts(locals), m.join(" "));
            r.refs = refs;
            r.id = Some(*id);
        }
        Injection::Local { target_fid, ty, tag } => {
            r.tag = tag.data().clone();
            r.content = format!("local {:?}", ty);
            r.loc = Some((*target_fid, None));
        }
        Injection::Table { tag } => {
            r.tag = tag.data().clone();
            r.content = "table".into();
        }
        Injection::Element { tag } => {
            r.tag = tag.data().clone();
            r.content = "element".into();
        }
        Injection::FuncProbe { target_fid, mode, body, tag } => {
            r.tag = tag.data().clone();
            let (m, refs) = masked(body);
            r.content = format!("funcprobe {} body={}", match mode { FuncInstrMode::Entry => "entry", FuncInstrMode::Exit => "exit" }, m.join(" "));
            r.refs = refs;
            r.loc = Some((*target_fid, None));
        }
        Injection::FuncLocProbe { target_fid, target_opcode_idx, mode, body, tag } => {
            r.tag = tag.data().clone();
            let (m, refs) = masked(body);
            r.content = format!("probe {:?} body={}", mode, m.join(" "));
            r.refs = refs;
            r.loc = Some((*target_fid, Some(*target_opcode_idx)));
        }
    }
    r
}

fn expected_content(op: &Op) -> String {
    match op {
        Op::Type { params, results } => format!("functype ({})->({}) super=None final=true shared=false", dts(params), dts(results)),
        Op::ImportFunc { name, ty } => format!("import env.{} {:?}", name, wasmparser::TypeRef::Func(*ty)),
        Op::ImportGlobal { name, dt, mutable } => format!(
            "import env.{} {:?}",
            name,
            wasmparser::TypeRef::Global(wasmparser::GlobalType { content_type: wasmparser::ValType::from(dt), mutable: *mutable, shared: false })
        ),
        Op::ImportMem { name, initial } => format!(
            "import env.{} {:?}",
            name,
            wasmparser::TypeRef::Memory(wasmparser::MemoryType { memory64: false, shared: false, initial: *initial, maximum: Some(initial + 7), page_size_log2: None })
        ),
        Op::ExportFunc { name, .. } => format!("export {} {:?}", name, wasmparser::ExternalKind::Func),
        Op::ExportMem { name, .. } => format!("export {} {:?}", name, wasmparser::ExternalKind::Memory),
        Op::Func { params, results, locals, body, name } => {
            let mut b = body.clone();
            b.push(O::End);
            format!("func name={:?} ({})->({}) locals=[{}] body={}", name, dts(params), dts(results), dts(locals), masked(&b).0.join(" "))
        }
        Op::Global { dt, mutable, value } => {
            let v = match dt {
                DataType::I32 => Value::I32(*value as i32),
                DataType::I64 => Value::I64(*value),
                DataType::F32 => Value::F32(f32::from_bits(*value as u32 & 0x7f7f_ffff)),
                _ => Value::F64(f64::from_bits(*value as u64 & 0x7fef_ffff_ffff_ffff)),
            };
            format!("global {:?} mut={} shared=false init={:?}", dt, mutable, vec![InitInstr::Value(v)])
        }
        Op::LocalMem { initial, maximum } => format!("memory initial={} max={:?}", initial, maximum),
        Op::PassiveData { payload } => format!("passive {}", payload.iter().map(|b| format!("{:02x}", b)).collect::<String>()),
        Op::ActiveData { off, payload, .. } => {
            format!("active off={:?} {}", vec![InitInstr::Value(Value::I32(*off))], payload.iter().map(|b| format!("{:02x}", b)).collect::<String>())
        }
        Op::Probe { mode, body, .. } => format!("probe {:?} body={}", im_of(*mode), masked(body).0.join(" ")),
        Op::Special { .. } => String::new(),
        Op::FuncProbe { exit, body, .. } => format!("funcprobe {} body={}", if *exit { "exit" } else { "entry" }, masked(body).0.join(" ")),
    }
}

/// neutral, reference-carrying probe body: marker; drop; then one of call / global.get / load on base entities
fn ref_body(g: &GenModule, uid: u32, rng: &mut Rng) -> Vec<O<'static>> {
    let mut v = vec![O::I32Const { value: (MARK + uid) as i32 }, O::Drop];
    let callable: Vec<u32> = (0..g.n_funcs()).filter(|f| g.sig(*f).0.iter().all(|t| matches!(t, VT::I32 | VT::I64 | VT::F32 | VT::F64))).collect();
    for _ in 0..rng.range(1, 2) {
        match rng.below(3) {
            0 if !callable.is_empty() => {
                let f = *rng.pick(&callable);
                let (p, r) = g.sig(f);
                for t in p {
                    v.push(match t {
                        VT::I32 => O::I32Const { value: 1 },
                        VT::I64 => O::I64Const { value: 2 },
                        VT::F32 => O::F32Const { value: wasmparser::Ieee32::from(1.5f32) },
                        _ => O::F64Const { value: wasmparser::Ieee64::from(2.5f64) },
                    });
                }
                v.push(O::Call { function_index: f });
                for _ in r {
                    v.push(O::Drop);
                }
            }
            1 if !g.globals.is_empty() => {
                let gi = rng.below(g.globals.len()) as u32;
                v.push(O::GlobalGet { global_index: gi });
                v.push(O::Drop);
            }
            _ if !g.mems.is_empty() => {
                let mi = rng.below(g.mems.len()) as u32;
                v.push(O::MemorySize { mem: mi });
                v.push(O::Drop);
            }
            _ => {}
        }
    }
    v
}

fn gen_ops(g: &GenModule, raw: &sym::RawModule, rng: &mut Rng, with_special: bool) -> Vec<Issued> {
    let mut out: Vec<Issued> = vec![];
    let n = rng.range(2, 12);
    let nimp = g.n_imp_funcs;
    let mut probe_sites: Vec<(u32, usize, u8)> = vec![];
    let mut func_level: Vec<(u32, bool)> = vec![];
    let ftypes: Vec<u32> = g.types.iter().enumerate().filter(|(_, t)| matches!(t, gen::TyInfo::Func(..))).map(|(i, _)| i as u32).collect();
    let nums = [DataType::I32, DataType::I64, DataType::F32, DataType::F64];
    for k in 0..n {
        let uid = k as u32 + 1;
        let mut tag = format!("T{}:", uid).into_bytes();
        let nb = rng.below(6);
        tag.extend(rng.bytes(nb));
        let choice = *rng.pick(&[0usize, 1, 2, 3, 4, 5, 6, 7, 8, 9, 10, 11, 12, 13, 15, 16, if with_special { 14 } else { 11 }]);
        let op = match choice {
            0 => {
                // a signature no base module has: 9+ parameters spelling the uid in binary
                let mut params = vec![DataType::I64; 5];
                for b in 0..5 {
                    params.push(if (uid >> b) & 1 == 1 { DataType::F32 } else { DataType::F64 });
                }
                Op::Type { params, results: vec![*rng.pick(&nums)] }
            }
            15 | 16 => {
                // a request whose signature a type of the parsed module already has: de-duplicated, so nothing is added
                let sigs: Vec<(Vec<DataType>, Vec<DataType>)> = g
                    .types
                    .iter()
                    .filter_map(|t| match t {
                        gen::TyInfo::Func(p, r) => {
                            let pp: Option<Vec<DataType>> = p.iter().map(|t| crate::edit::vt_dt(*t)).collect();
                            let rr: Option<Vec<DataType>> = r.iter().map(|t| crate::edit::vt_dt(*t)).collect();
                            Some((pp?, rr?))
                        }
                        _ => None,
                    })
                    .collect();
                if sigs.is_empty() {
                    continue;
                }
                let (p, r) = rng.pick(&sigs).clone();
                if choice == 15 {
                    Op::Type { params: p, results: r }
                } else if r.is_empty() && p.iter().all(|d| nums.contains(d)) {
                    Op::Func { params: p, results: r, locals: vec![], body: ref_body(g, uid, rng), name: None }
                } else {
                    continue;
                }
            }
            1 if !ftypes.is_empty() => Op::ImportFunc { name: format!("tf{}", uid), ty: *rng.pick(&ftypes) },
            2 => Op::ImportGlobal { name: format!("tg{}", uid), dt: *rng.pick(&nums), mutable: rng.bool() },
            3 => Op::ImportMem { name: format!("tm{}", uid), initial: 100 + uid as u64 },
            4 if g.n_funcs() > 0 => Op::ExportFunc { name: format!("te{}", uid), target: rng.below(g.n_funcs() as usize) as u32 },
            5 if !g.mems.is_empty() => Op::ExportMem { name: format!("tx{}", uid), target: rng.below(g.mems.len()) as u32 },
            6 => {
                let params: Vec<DataType> = (0..rng.below(3)).map(|_| *rng.pick(&nums)).collect();
                let locals: Vec<DataType> = (0..rng.below(3)).map(|_| *rng.pick(&nums)).collect();
                Op::Func { params, results: vec![], locals, body: ref_body(g, uid, rng), name: if rng.bool() { Some(format!("tagged{}", uid)) } else { None } }
            }
            7 => Op::Global { dt: *rng.pick(&nums), mutable: rng.bool(), value: 0x1000 + uid as i64 * 17 },
            8 => Op::LocalMem { initial: 300 + uid as u64, maximum: if rng.bool() { Some(400 + uid as u64) } else { None } },
            9 => Op::PassiveData { payload: { let mut p = vec![0xC2, 0x33, uid as u8]; let nb = rng.below(5); p.extend(rng.bytes(nb)); p } },
            10 if g.mems.iter().any(|m| !m.mem64) => {
                let ms: Vec<u32> = g.mems.iter().enumerate().filter(|(_, m)| !m.mem64).map(|(i, _)| i as u32).collect();
                Op::ActiveData { mem: *rng.pick(&ms), off: rng.below(32) as i32, payload: { let mut p = vec![0xC2, 0x34, uid as u8]; let nb = rng.below(5); p.extend(rng.bytes(nb)); p } }
            }
            11 | 12 if !raw.funcs.is_empty() => {
                let f = rng.below(raw.funcs.len());
                let ops = &raw.funcs[f].ops;
                let at = rng.below(ops.len());
                let mut mode = rng.below(3) as u8;
                let name = ops[at].name.as_str();
                if mode == 2 && matches!(name, "Block" | "Loop" | "If" | "Else" | "End" | "TryTable" | "Try") {
                    mode = 0;
                }
                if mode == 1 && at + 1 == ops.len() {
                    // code after the final end is never emitted: not an "injected probe"
                    mode = 0;
                }
                let fid = nimp + f as u32;
                if probe_sites.contains(&(fid, at, mode)) {
                    continue;
                }
                probe_sites.push((fid, at, mode));
                Op::Probe { func: fid, at, mode, via_iter: rng.bool(), body: ref_body(g, uid, rng), tag_chunks: rng.range(1, 3) }
            }
            13 if !raw.funcs.is_empty() => {
                let f = nimp + rng.below(raw.funcs.len()) as u32;
                let exit = rng.bool();
                if func_level.contains(&(f, exit)) {
                    continue;
                }
                func_level.push((f, exit));
                Op::FuncProbe { func: f, exit, body: ref_body(g, uid, rng) }
            }
            14 => {
                // special modes on a block-style instruction
                let cands: Vec<(usize, usize)> =
                    raw.funcs.iter().enumerate().flat_map(|(f, fu)| structure(&fu.ops).blockish.into_iter().map(move |b| (f, b))).collect();
                if cands.is_empty() {
                    continue;
                }
                let (f, at) = *rng.pick(&cands);
                let mode = rng.below(3) as u8;
                if mode == 2 && raw.funcs[f].ops[at].name == "Loop" {
                    continue;
                }
                let fid = nimp + f as u32;
                if probe_sites.contains(&(fid, at, 10 + mode)) {
                    continue;
                }
                probe_sites.push((fid, at, 10 + mode));
                Op::Special { func: fid, at, mode, body: ref_body(g, uid, rng) }
            }
            _ => continue,
        };
        out.push(Issued { op, tag, uid });
    }
    // function-level probes last (mode is sticky on a modifier until finish_instr; keep the protocol simple)
    out.sort_by_key(|i| matches!(i.op, Op::FuncProbe { .. }));
    out
}

fn find_marker(raw: &sym::RawModule, uid: u32) -> Vec<(usize, usize)> {
    let want = sym::sym_op(&O::I32Const { value: (MARK + uid) as i32 }).unwrap().bytes;
    let mut v = vec![];
    for (f, fu) in raw.funcs.iter().enumerate() {
        for (i, o) in fu.ops.iter().enumerate() {
            if o.bytes == want {
                v.push((f, i));
            }
        }
    }
    v
}

impl Prop for C23 {
    fn id(&self) -> &'static str {
        "C23"
    }
    fn cases(&self, tier: Tier) -> u64 {
        match tier {
            Tier::Quick => 96_000,
            Tier::Thorough => 600_000,
        }
    }
    fn rule(&self) -> String {
        "generated base with plenty of untagged items (imports, functions, globals, memories, data, exports, names) + 2..12 additions / probes, each with a \
         unique non-empty tag: add_func_type (fresh signature), add_import_func / add_imported_global / add_import_memory _with_tag, exports.add_export_func / \
         add_export_mem, FunctionBuilder::finish_module_with_tag, add_global_with_tag, add_local_memory_with_tag, add_data (passive / active), plain \
         before / after / alternate probes (FunctionModifier + append_tag_at, ModuleIterator + append_to_tag, tag appended in 1-3 pieces), function entry / \
         exit probes; every third case also special-mode probes (block entry / exit / semantic after). Probe and function bodies reference base functions, \
         globals and memories, and about half of the cases add imports first so that every index space shifts. Oracle: multiset of (kind, tag, content) of \
         pull_side_effects() == issued; probe-record bodies == the operators encode() emits after the probe's marker (twin module and the same module after \
         the pull). Non-trivial = >= 3 tagged items incl. >= 1 probe and an index shift; distinct = base + op list."
            .into()
    }
    fn assumptions(&self) -> Vec<String> {
        vec![
            "untagged additions and untagged probes are not generated (the statement is silent about them)".into(),
            "id fields of records (function / global / memory id, export index, memory index of active data, target_fid) are accepted in either the caller's or the encoded module's index space; only probe *bodies* are required to be in the encoded module's space".into(),
            "special-mode probes are judged only on conservation (their tag must be reported exactly once); the shape of their lowered records is not asserted".into(),
        ]
    }
    fn anchors(&self) -> Vec<&'static str> {
        vec!["add_injections.instr"]
    }
    fn run_witness(&self, w: &serde_json::Value) -> Option<CaseOut> {
        if let (Some(path), Some(which)) = (w["wat"].as_str(), w["c23"].as_str()) {
            // explicit witnesses on a hand-written module (findings/open/c23-base.wat):
            //   function 1 = $f: 0 block / 1 i32.const 1 / 2 br_if 0 / 3 nop / 4 end(block) / 5 end
            let bytes = wat::parse_file(format!("{}/{}", std::env::var("VERIF_DIR").unwrap_or_else(|_| "/verif".into()), path)).ok()?;
            let body = |uid: u32| vec![O::I32Const { value: (MARK + uid) as i32 }, O::Drop, O::Call { function_index: 0 }];
            let mk = |op: Op, uid: u32| Issued { op, tag: format!("T{}:w", uid).into_bytes(), uid };
            let issued = match which {
                "block-entry-tag" => vec![mk(Op::Special { func: 1, at: 0, mode: 0, body: body(1) }, 1)],
                "block-exit-tag" => vec![mk(Op::Special { func: 1, at: 0, mode: 1, body: body(1) }, 1)],
                "semantic-after-tag" => vec![mk(Op::Special { func: 1, at: 0, mode: 2, body: body(1) }, 1)],
                // plain Before probe on the block's `end` + block-exit probe on the block (lowered in front of that `end`)
                "merged-before" => vec![
                    mk(Op::Probe { func: 1, at: 4, mode: 0, via_iter: false, body: body(1), tag_chunks: 1 }, 1),
                    mk(Op::Special { func: 1, at: 0, mode: 1, body: body(2) }, 2),
                ],
                // plain After probe on `block` + block-entry probe on the same block (lowered after the `block` opcode)
                "merged-after" => vec![
                    mk(Op::Probe { func: 1, at: 0, mode: 1, via_iter: false, body: body(1), tag_chunks: 1 }, 1),
                    mk(Op::Special { func: 1, at: 0, mode: 0, body: body(2) }, 2),
                ],
                _ => return None,
            };
            return Some(self.evaluate(&bytes, "witness", issued, 0, false));
        }
        match (w["seed"].as_u64(), w["idx"].as_u64()) {
            (Some(s), Some(i)) => Some(self.run_case(s, i, false)),
            _ => None,
        }
    }
    fn run_case(&self, seed: u64, idx: u64, want_sample: bool) -> CaseOut {
        let mut out = CaseOut::default();
        let mut rng = Rng::for_case(seed, "C23", idx);
        let base_kind = *rng.pick(&["C06", "C07", "C08", "C06"]);
        let g = match hist::base_module(base_kind, &mut rng, false) {
            Ok(g) => g,
            Err(_) => {
                out.inconclusive = Some("generator reject".into());
                return out;
            }
        };
        let raw_in = match sym::decode(&g.bytes) {
            Ok(r) => r,
            Err(e) => {
                out.inconclusive = Some(format!("decode: {}", e));
                return out;
            }
        };
        let with_special = idx % 3 == 2;
        let issued = gen_ops(&g, &raw_in, &mut rng, with_special);
        if issued.is_empty() {
            out.inconclusive = Some("empty op list".into());
            return out;
        }
        self.evaluate(&g.bytes, g.profile, issued, seed, want_sample)
    }
}

impl C23 {
    fn evaluate(&self, base: &[u8], profile: &str, issued: Vec<Issued>, seed: u64, want_sample: bool) -> CaseOut {
        let mut out = CaseOut::default();
        struct G<'x> {
            bytes: &'x [u8],
            profile: &'x str,
        }
        let g = G { bytes: base, profile };
        let raw_in = match sym::decode(g.bytes) {
            Ok(r) => r,
            Err(e) => {
                out.inconclusive = Some(format!("decode: {}", e));
                return out;
            }
        };
        out.fp = fnv_mix(fnv(&g.bytes), fnv(format!("{:?}", issued).as_bytes()));
        let ops_json: Vec<String> = issued.iter().map(|i| format!("{:?} tag={}", i.op, String::from_utf8_lossy(&i.tag))).collect();
        let detail = |extra: serde_json::Value| json!({"seed": seed, "ops": ops_json, "what": extra, "base_wat": crate::props::c01::text_of(&g.bytes).lines().take(80).collect::<Vec<_>>().join("\n")});
        // ---- A: pull, then encode; B: encode only
        let bytes = g.bytes.to_vec();
        let iss = issued.clone();
        type R = Result<(Vec<Rec>, Vec<u8>, Vec<u8>, Vec<(u32, u32)>), (String, PanicInfo)>;
        let res: R = (|| {
            let mut a = match catch(|| wirm::Module::parse(&bytes, true)) {
                Ok(Ok(m)) => m,
                _ => return Err(("parse".into(), PanicInfo::default())),
            };
            let ret = catch(|| apply(&mut a, &iss)).map_err(|p| ("legal-call".to_string(), p))?;
            let se = catch(|| a.pull_side_effects()).map_err(|p| ("pull_side_effects".to_string(), p))?;
            let mut recs = vec![];
            let mut keys: Vec<&InjectType> = se.keys().collect();
            keys.sort();
            for k in keys {
                for inj in &se[k] {
                    recs.push(rec_of(*k, inj));
                }
            }
            let enc_a = catch(|| a.encode()).map_err(|p| ("encode-after-pull".to_string(), p))?;
            let mut b = match catch(|| wirm::Module::parse(&bytes, true)) {
                Ok(Ok(m)) => m,
                _ => return Err(("parse".into(), PanicInfo::default())),
            };
            catch(|| apply(&mut b, &iss)).map_err(|p| ("legal-call".to_string(), p))?;
            let enc_b = catch(|| b.encode()).map_err(|p| ("encode".to_string(), p))?;
            Ok((recs, enc_a, enc_b, ret))
        })();
        let (recs, enc_a, enc_b, ret) = match res {
            Ok(x) => x,
            Err((what, p)) if what == "parse" => {
                out.inconclusive = Some(format!("base not usable {}", p.sig()));
                return out;
            }
            Err((what, p)) if what == "pull_side_effects" || what == "encode-after-pull" => {
                out.violate(format!("{}-{}", what, p.sig()), detail(json!({"panic": p.json()})));
                return out;
            }
            Err((what, p)) => {
                // a panic of an addition / injection call or of the plain encode belongs to the property owning that call
                out.inconclusive = Some(format!("{} panic (other property): {}", what, p.sig()).chars().take(100).collect());
                return out;
            }
        };
        for i in &issued {
            out.ob(format!("issued:{}", match &i.op { Op::Special { .. } => "special-probe", Op::FuncProbe { .. } => "func-probe", o => kind_of(o) }));
        }
        out.obn("records_returned", recs.len() as u64);
        // ---- conservation: one record per issued tag, right kind, right content
        // Records with an EMPTY tag are outside the statement (untagged code: the library reports every probe list, and the
        // fragments it creates itself while lowering special modes carry no tag); they are counted, not judged.
        let mut by_tag: BTreeMap<Vec<u8>, Vec<&Rec>> = BTreeMap::new();
        for r in &recs {
            if r.tag.is_empty() {
                out.ob(format!("untagged_record:{}", r.kind));
                continue;
            }
            by_tag.entry(r.tag.clone()).or_default().push(r);
        }
        let issued_tags: BTreeMap<Vec<u8>, &Issued> = issued.iter().map(|i| (i.tag.clone(), i)).collect();
        for (t, rs) in &by_tag {
            if !issued_tags.contains_key(t) {
                let r = rs[0];
                let class = if issued.iter().any(|i| i.tag.starts_with(t) || t.starts_with(&i.tag)) { "tag-differs" } else { "unknown-tag" };
                out.violate(
                    format!("record-extra:{}:{}", r.kind, class),
                    detail(json!({"record_kind": r.kind, "record_tag": String::from_utf8_lossy(t), "record_content": r.content, "count": rs.len()})),
                );
            }
        }
        let raw_a = sym::decode(&enc_a).ok();
        let raw_b = sym::decode(&enc_b).ok();
        if raw_a.is_none() || raw_b.is_none() {
            out.inconclusive = Some("encoded output undecodable (other property)".into());
            return out;
        }
        let (raw_a, raw_b) = (raw_a.unwrap(), raw_b.unwrap());
        let shifted = raw_b.n_imp_funcs != raw_in.n_imp_funcs || raw_b.n_imp_globals != raw_in.n_imp_globals || raw_b.n_imp_mems != raw_in.n_imp_mems;
        let mut n_probe = 0;
        for (k, is) in issued.iter().enumerate() {
            let kind = kind_of(&is.op);
            let special = matches!(is.op, Op::Special { .. });
            let cls = match &is.op {
                Op::Special { mode, .. } => format!("special-probe:{}", ["block-entry", "block-exit", "semantic-after"][*mode as usize]),
                Op::FuncProbe { exit, .. } => format!("func-probe:{}", if *exit { "exit" } else { "entry" }),
                Op::Probe { mode, via_iter, .. } => format!("probe:{:?}:{}", im_of(*mode), if *via_iter { "iterator" } else { "modifier" }),
                o => kind_of(o).to_string(),
            };
            let all = by_tag.get(&is.tag).cloned().unwrap_or_default();
            let n_base_types = raw_in.types.len() as u32;
            // a tagged request that was de-duplicated against a type of the PARSED module added nothing: no record may carry its tag
            if let Op::Type { .. } = &is.op {
                if ret[k].1 < n_base_types {
                    out.ob("type_request_deduplicated_against_parsed_type");
                    if !all.is_empty() {
                        out.violate(
                            "record-for-pre-existing-item:type".to_string(),
                            detail(json!({"issued": ops_json[k], "returned_type_id": ret[k].1, "types_in_parsed_module": n_base_types, "record": all[0].content})),
                        );
                    }
                    continue;
                }
            }
            // a function built with a tag passes the tag to the type it creates, and the lowering of function-level / special probes may
            // create helper block types with the probe's tag: those are added items that carry the tag
            let helper_types: Vec<&&Rec> = all.iter().filter(|r| r.kind == "type" && kind != "type").collect();
            for h in &helper_types {
                match &is.op {
                    Op::Func { .. } if ret[k].1 < n_base_types => {
                        // the function uses a type of the parsed module: that type is not an added item
                        out.violate(
                            "record-for-pre-existing-item:type-of-tagged-func".to_string(),
                            detail(json!({"issued": ops_json[k], "type_id_of_function": ret[k].1, "types_in_parsed_module": n_base_types, "record": h.content})),
                        );
                    }
                    Op::Func { params, results, .. } => {
                        let want = format!("functype ({})->({}) super=None final=true shared=false", dts(params), dts(results));
                        if h.content != want {
                            out.violate(format!("content-differs:type-of-tagged-func"), detail(json!({"issued": ops_json[k], "expected": want, "record": h.content})));
                        } else {
                            out.ob("tagged_func_type_record");
                        }
                    }
                    Op::FuncProbe { .. } | Op::Special { .. } => out.ob("helper_block_type_record"),
                    _ => out.violate(format!("kind-differs:{}→type", cls), detail(json!({"issued": ops_json[k], "record_content": h.content}))),
                }
            }
            let rs: Vec<&Rec> = all.iter().filter(|r| !(r.kind == "type" && kind != "type")).cloned().collect();
            if rs.is_empty() {
                out.violate(format!("record-missing:{}", cls), detail(json!({"issued": ops_json[k]})));
                continue;
            }
            if rs.len() > 1 && !special {
                out.violate(format!("record-duplicated:{}", cls), detail(json!({"issued": ops_json[k], "count": rs.len(), "records": rs.iter().map(|r| r.content.clone()).collect::<Vec<_>>()})));
                continue;
            }
            let r = rs[0];
            if r.kind != kind {
                out.violate(format!("kind-differs:{}→{}", cls, r.kind), detail(json!({"issued": ops_json[k], "record_content": r.content})));
                continue;
            }
            if special {
                out.ob("special_probe_reported");
                continue;
            }
            let exp = expected_content(&is.op);
            if r.content != exp {
                // the before / after list of a site also receives the code the library lowers special modes into (function exit in front of
                // `end` / `return`, block exit in front of an `end`, ...): the record of the plain probe then contains that code as well
                let my_func = match &is.op {
                    Op::Probe { func, .. } => Some(*func),
                    _ => None,
                };
                let lowered_here = issued.iter().any(|o| match &o.op {
                    Op::FuncProbe { func, .. } | Op::Special { func, .. } => Some(*func) == my_func,
                    _ => false,
                });
                let body_exp = &exp[exp.find("body=").map(|p| p + 5).unwrap_or(0)..];
                let sig = if lowered_here && (r.content.starts_with(&exp) || r.content.ends_with(body_exp)) {
                    format!("content-differs:{}:merged-with-lowered-special-code", cls.split(':').take(2).collect::<Vec<_>>().join(":"))
                } else {
                    format!("content-differs:{}:{}", cls, crate::props::c01::token_delta(&exp, &r.content).chars().take(60).collect::<String>())
                };
                out.violate(sig, detail(json!({"issued": ops_json[k], "expected": exp, "record": r.content})));
                continue;
            }
            out.ob("record_content_checked");
            // ---- ids: either index space
            let id_ok = |got: u32, caller: u32, encoded: Option<u32>| got == caller || Some(got) == encoded;
            match &is.op {
                Op::ExportFunc { name, target } | Op::ExportMem { name, target } => {
                    let enc = raw_b.exports.iter().find(|(n, _, _)| n == name).map(|(_, _, i)| *i);
                    if !id_ok(r.id.unwrap_or(u32::MAX), *target, enc) {
                        out.violate(format!("id-in-neither-space:{}", cls), detail(json!({"issued": ops_json[k], "record_index": r.id, "caller": target, "encoded": enc})));
                    }
                }
                Op::Probe { func, at, .. } => {
                    if let Some((fid, Some(oi))) = r.loc {
                        let enc_f = find_marker(&raw_b, is.uid).first().map(|(f, _)| raw_b.n_imp_funcs + *f as u32);
                        if oi as usize != *at || !id_ok(fid, *func, enc_f) {
                            out.violate(
                                format!("probe-location-differs:{}", cls),
                                detail(json!({"issued": ops_json[k], "record_loc": [fid, oi], "caller_func": func, "encoded_func": enc_f, "at": at})),
                            );
                        }
                    }
                }
                Op::FuncProbe { func, .. } => {
                    if let Some((fid, _)) = r.loc {
                        let enc_f = find_marker(&raw_b, is.uid).first().map(|(f, _)| raw_b.n_imp_funcs + *f as u32);
                        if !id_ok(fid, *func, enc_f) {
                            out.violate(format!("probe-location-differs:{}", cls), detail(json!({"issued": ops_json[k], "record_fid": fid, "caller_func": func, "encoded_func": enc_f})));
                        }
                    }
                }
                Op::Func { .. } | Op::Global { .. } | Op::LocalMem { .. } => {
                    // id ∈ {returned id, index in the output}: the output index is found through the unique content
                    let caller = ret[k].0;
                    let enc = match &is.op {
                        Op::Func { .. } => find_marker(&raw_b, is.uid).first().map(|(f, _)| raw_b.n_imp_funcs + *f as u32),
                        Op::LocalMem { initial, .. } => raw_b.memories.iter().position(|m| m.contains(&format!("initial: {}", initial))).map(|p| raw_b.n_imp_mems + p as u32),
                        _ => None,
                    };
                    if let (Some(got), true) = (r.id, enc.is_some() || !matches!(is.op, Op::Global { .. })) {
                        if !id_ok(got, caller, enc) {
                            out.violate(format!("id-in-neither-space:{}", cls), detail(json!({"issued": ops_json[k], "record_id": got, "returned": caller, "encoded": enc})));
                        }
                    }
                }
                _ => {}
            }
            // ---- probe bodies: same index space as the encoded module
            let body_len = match &is.op {
                Op::Probe { body, .. } | Op::FuncProbe { body, .. } => Some(body.len()),
                _ => None,
            };
            if let Some(n) = body_len {
                n_probe += 1;
                for (which, raw) in [("twin", &raw_b), ("after-pull", &raw_a)] {
                    let hits = find_marker(raw, is.uid);
                    if hits.is_empty() {
                        // an accepted probe that is not in the output is C15 / C22's subject
                        out.ob("probe-not-in-output(other property)");
                        continue;
                    }
                    let (f, i) = hits[0];
                    let emitted: Vec<(RefKind, u32)> = raw.funcs[f].ops[i..(i + n).min(raw.funcs[f].ops.len())].iter().flat_map(|o| o.refs.clone()).collect();
                    if emitted != r.refs {
                        out.violate(
                            format!("index-space-differs:{}:{}", cls, which),
                            detail(json!({"issued": ops_json[k], "record_indices": format!("{:?}", r.refs), "encoded_indices": format!("{:?}", emitted), "encoding": which})),
                        );
                        break;
                    }
                    out.ob(format!("probe_body_matches_encoded:{}", which));
                }
            }
        }
        out.nontrivial = issued.len() >= 3 && n_probe >= 1 && shifted;
        if shifted {
            out.ob("index_space_shifted");
        }
        if want_sample {
            out.sample = Some(json!({"profile": g.profile, "ops": ops_json, "records": recs.iter().map(|r| format!("{} tag={} {}", r.kind, String::from_utf8_lossy(&r.tag), r.content.chars().take(160).collect::<String>())).collect::<Vec<_>>()}));
        }
        out
    }
}
