//! X — reference interpreter over the encoded bytes (decoded with wasmparser, independent
//! of wirm's IR) for the subset the program generator emits, plus the semantic-event
//! emitter used on the ORIGINAL module to derive when probes must fire.

use std::collections::HashMap;
use wasmparser::{BlockType, Operator as O, Parser, Payload, TypeRef, ValType};

#[derive(Clone, Copy, Debug, PartialEq)]
pub enum Val {
    I32(i32),
    I64(i64),
    Ref(Option<u32>),
}

#[derive(Clone, Debug, PartialEq)]
pub enum Stop {
    Trap(String),
    Exception(u32, Vec<Val>),
    OutOfFuel,
    Unsupported(String),
}

#[derive(Clone, Debug, PartialEq)]
pub enum Outcome {
    Results(Vec<Val>),
    Trap(String),
    Exception(u32),
    OutOfFuel,
    Unsupported(String),
}

#[derive(Clone, Copy, Debug, PartialEq, Eq, Hash, PartialOrd, Ord)]
pub enum ExitCause {
    FallOff,
    Return,
    BrToFuncLabel,
    ReturnCall,
    Unreachable,
    Throw,
}

#[derive(Clone, Debug, PartialEq)]
pub enum Ev {
    FuncEnter { f: u32 },
    FuncExit { f: u32, cause: ExitCause },
    Exec { f: u32, pc: usize },
    Done { f: u32, pc: usize },
    /// control enters the body of block / loop (every iteration) / then-arm (open = if pc) / else-arm (open = else pc)
    Enter { f: u32, open: usize },
    /// the body / arm reaches its own else / end sequentially (if: keyed by the `if` pc for the then-arm, by the else pc for the else-arm)
    FallThrough { f: u32, open: usize },
    /// control reaches the instruction after the construct's end (fall-through, false path of an else-less if, or branch to its label)
    AfterConstruct { f: u32, open: usize },
    /// one execution of a branch instruction; `target` = Some(open pc) or None for the function label
    Branch { f: u32, pc: usize, taken: bool, target: Option<usize>, target_is_loop: bool },
}

pub struct Ctl {
    pub end: usize,
    pub els: Option<usize>,
    pub nparams: usize,
    pub nresults: usize,
}

pub struct IFunc<'a> {
    pub type_idx: u32,
    pub locals: Vec<ValType>,
    pub code: Vec<O<'a>>,
    pub ctl: HashMap<usize, Ctl>,
    /// for an `else` pc: the pc of its `if`
    pub if_of_else: HashMap<usize, usize>,
}

pub struct IModule<'a> {
    pub types: Vec<(Vec<ValType>, Vec<ValType>)>,
    pub func_types: Vec<u32>,
    pub n_imp_funcs: u32,
    pub import_names: Vec<(String, String)>,
    pub funcs: Vec<IFunc<'a>>,
    pub globals: Vec<(ValType, Val)>,
    pub exports: HashMap<String, (u8, u32)>,
    pub mem_pages: u32,
    pub datas: Vec<(u32, Vec<u8>)>,
    pub table: Vec<Option<u32>>,
}

fn const_val(e: &wasmparser::ConstExpr) -> Result<Val, String> {
    let mut r = e.get_operators_reader();
    match r.read().map_err(|e| e.to_string())? {
        O::I32Const { value } => Ok(Val::I32(value)),
        O::I64Const { value } => Ok(Val::I64(value)),
        O::RefNull { .. } => Ok(Val::Ref(None)),
        O::RefFunc { function_index } => Ok(Val::Ref(Some(function_index))),
        o => Err(format!("unsupported constant {:?}", o)),
    }
}

pub fn load(bytes: &[u8]) -> Result<IModule<'_>, String> {
    let mut m = IModule {
        types: vec![],
        func_types: vec![],
        n_imp_funcs: 0,
        import_names: vec![],
        funcs: vec![],
        globals: vec![],
        exports: HashMap::new(),
        mem_pages: 0,
        datas: vec![],
        table: vec![],
    };
    let mut local_types = vec![];
    for p in Parser::new(0).parse_all(bytes) {
        match p.map_err(|e| e.to_string())? {
            Payload::TypeSection(r) => {
                for g in r {
                    for st in g.map_err(|e| e.to_string())?.types() {
                        match &st.composite_type.inner {
                            wasmparser::CompositeInnerType::Func(f) => m.types.push((f.params().to_vec(), f.results().to_vec())),
                            _ => m.types.push((vec![], vec![])),
                        }
                    }
                }
            }
            Payload::ImportSection(r) => {
                for i in r {
                    let i = i.map_err(|e| e.to_string())?;
                    match i.ty {
                        TypeRef::Func(t) => {
                            m.func_types.push(t);
                            m.n_imp_funcs += 1;
                            m.import_names.push((i.module.into(), i.name.into()));
                        }
                        _ => return Err("unsupported import kind".into()),
                    }
                }
            }
            Payload::FunctionSection(r) => {
                for f in r {
                    let t = f.map_err(|e| e.to_string())?;
                    m.func_types.push(t);
                    local_types.push(t);
                }
            }
            Payload::TableSection(r) => {
                for t in r {
                    let t = t.map_err(|e| e.to_string())?;
                    if m.table.is_empty() {
                        m.table = vec![None; t.ty.initial as usize];
                    }
                }
            }
            Payload::MemorySection(r) => {
                for mm in r {
                    m.mem_pages = mm.map_err(|e| e.to_string())?.initial as u32;
                }
            }
            Payload::GlobalSection(r) => {
                for g in r {
                    let g = g.map_err(|e| e.to_string())?;
                    m.globals.push((g.ty.content_type, const_val(&g.init_expr)?));
                }
            }
            Payload::ExportSection(r) => {
                for e in r {
                    let e = e.map_err(|e| e.to_string())?;
                    m.exports.insert(e.name.to_string(), (e.kind as u8, e.index));
                }
            }
            Payload::ElementSection(r) => {
                for e in r {
                    let e = e.map_err(|e| e.to_string())?;
                    if let wasmparser::ElementKind::Active { offset_expr, .. } = e.kind {
                        let off = match const_val(&offset_expr)? {
                            Val::I32(v) => v as usize,
                            _ => 0,
                        };
                        if let wasmparser::ElementItems::Functions(fr) = e.items {
                            for (k, f) in fr.into_iter().enumerate() {
                                let f = f.map_err(|e| e.to_string())?;
                                if off + k < m.table.len() {
                                    m.table[off + k] = Some(f);
                                }
                            }
                        }
                    }
                }
            }
            Payload::DataSection(r) => {
                for d in r {
                    let d = d.map_err(|e| e.to_string())?;
                    if let wasmparser::DataKind::Active { offset_expr, .. } = d.kind {
                        let off = match const_val(&offset_expr)? {
                            Val::I32(v) => v as u32,
                            _ => 0,
                        };
                        m.datas.push((off, d.data.to_vec()));
                    }
                }
            }
            Payload::CodeSectionEntry(b) => {
                let mut locals = vec![];
                for l in b.get_locals_reader().map_err(|e| e.to_string())? {
                    let (n, t) = l.map_err(|e| e.to_string())?;
                    for _ in 0..n {
                        locals.push(t);
                    }
                }
                let code: Vec<O> = b.get_operators_reader().map_err(|e| e.to_string())?.into_iter().collect::<Result<_, _>>().map_err(|e| e.to_string())?;
                let type_idx = local_types[m.funcs.len()];
                m.funcs.push(IFunc { type_idx, locals, code, ctl: HashMap::new(), if_of_else: HashMap::new() });
            }
            _ => {}
        }
    }
    // control structure
    let types = m.types.clone();
    for f in m.funcs.iter_mut() {
        let mut stack: Vec<(usize, Option<usize>)> = vec![];
        for (pc, op) in f.code.iter().enumerate() {
            match op {
                O::Block { .. } | O::Loop { .. } | O::If { .. } => stack.push((pc, None)),
                // a try_table without catch clauses behaves like a block (an exception thrown inside propagates)
                O::TryTable { try_table } if try_table.catches.is_empty() => stack.push((pc, None)),
                O::TryTable { .. } | O::Try { .. } => return Err("try_table with catch clauses is not supported by the interpreter".into()),
                O::Else => {
                    if let Some(t) = stack.last_mut() {
                        t.1 = Some(pc);
                        f.if_of_else.insert(pc, t.0);
                    }
                }
                O::End => {
                    if let Some((open, els)) = stack.pop() {
                        let bt = match &f.code[open] {
                            O::Block { blockty } | O::Loop { blockty } | O::If { blockty } => *blockty,
                            O::TryTable { try_table } => try_table.ty,
                            _ => BlockType::Empty,
                        };
                        let (np, nr) = match bt {
                            BlockType::Empty => (0, 0),
                            BlockType::Type(_) => (0, 1),
                            BlockType::FuncType(t) => types.get(t as usize).map(|(p, r)| (p.len(), r.len())).unwrap_or((0, 0)),
                        };
                        f.ctl.insert(open, Ctl { end: pc, els, nparams: np, nresults: nr });
                    }
                }
                _ => {}
            }
        }
    }
    Ok(m)
}

struct Label {
    open: Option<usize>,
    is_loop: bool,
    /// pc to continue at when branching to this label
    cont: usize,
    arity: usize,
    height: usize,
}

pub struct Machine<'m, 'a> {
    pub m: &'m IModule<'a>,
    pub globals: Vec<Val>,
    pub mem: Vec<u8>,
    pub fuel: u64,
    pub events_on: bool,
    pub events: Vec<(i64, Ev)>,
    /// (probe id, tick, call depth)
    pub probe_log: Vec<(i32, i64, u32)>,
    pub tick_global: u32,
}

fn default_val(t: ValType) -> Val {
    match t {
        ValType::I32 => Val::I32(0),
        ValType::I64 => Val::I64(0),
        _ => Val::Ref(None),
    }
}

impl<'m, 'a> Machine<'m, 'a> {
    pub fn new(m: &'m IModule<'a>, fuel: u64, events_on: bool) -> Machine<'m, 'a> {
        let mut mem = vec![0u8; m.mem_pages as usize * 65536];
        for (off, d) in &m.datas {
            let o = *off as usize;
            if o + d.len() <= mem.len() {
                mem[o..o + d.len()].copy_from_slice(d);
            }
        }
        let tick_global = m.exports.get("tick").map(|e| e.1).unwrap_or(0);
        Machine { m, globals: m.globals.iter().map(|g| g.1).collect(), mem, fuel, events_on, events: vec![], probe_log: vec![], tick_global }
    }
    fn tick(&self) -> i64 {
        match self.globals.get(self.tick_global as usize) {
            Some(Val::I64(v)) => *v,
            _ => -1,
        }
    }
    fn ev(&mut self, e: Ev) {
        if self.events_on {
            let t = self.tick();
            self.events.push((t, e));
        }
    }

    pub fn invoke(&mut self, f: u32, args: Vec<Val>) -> Outcome {
        match self.call(f, args, 0) {
            Ok(v) => Outcome::Results(v),
            Err(Stop::Trap(t)) => Outcome::Trap(t),
            Err(Stop::Exception(tag, _)) => Outcome::Exception(tag),
            Err(Stop::OutOfFuel) => Outcome::OutOfFuel,
            Err(Stop::Unsupported(s)) => Outcome::Unsupported(s),
        }
    }

    fn call(&mut self, f: u32, args: Vec<Val>, depth: u32) -> Result<Vec<Val>, Stop> {
        if depth > 200 {
            return Err(Stop::Trap("call stack exhausted".into()));
        }
        if f < self.m.n_imp_funcs {
            let (module, name) = &self.m.import_names[f as usize];
            if module == "host" && name == "probe" {
                if let Some(Val::I32(id)) = args.first() {
                    let t = self.tick();
                    self.probe_log.push((*id, t, depth));
                }
                return Ok(vec![]);
            }
            return Err(Stop::Unsupported(format!("import {}.{}", module, name)));
        }
        let lf = f - self.m.n_imp_funcs;
        let func = &self.m.funcs[lf as usize];
        let (ptys, rtys) = &self.m.types[func.type_idx as usize];
        let nres = rtys.len();
        let mut locals: Vec<Val> = args;
        if locals.len() != ptys.len() {
            return Err(Stop::Unsupported("arity".into()));
        }
        for t in &func.locals {
            locals.push(default_val(*t));
        }
        self.ev(Ev::FuncEnter { f });
        let mut stack: Vec<Val> = vec![];
        let mut labels: Vec<Label> = vec![];
        let mut pc = 0usize;
        let code = &func.code;
        let last = code.len() - 1;
        macro_rules! pop {
            () => {
                match stack.pop() {
                    Some(v) => v,
                    None => return Err(Stop::Unsupported(format!("stack underflow at pc {}", pc))),
                }
            };
        }
        macro_rules! pop_i32 {
            () => {
                match pop!() {
                    Val::I32(v) => v,
                    o => return Err(Stop::Unsupported(format!("expected i32 got {:?} at pc {}", o, pc))),
                }
            };
        }
        macro_rules! pop_i64 {
            () => {
                match pop!() {
                    Val::I64(v) => v,
                    o => return Err(Stop::Unsupported(format!("expected i64 got {:?} at pc {}", o, pc))),
                }
            };
        }
        // branch to label depth d (relative); returns Some(results) when it leaves the function
        macro_rules! branch {
            ($d:expr, $bpc:expr) => {{
                let d = $d as usize;
                if d >= labels.len() {
                    // function label
                    let n = nres;
                    let vals = stack.split_off(stack.len() - n);
                    // every construct that is left by this branch is "after construct"? no: control leaves the function
                    self.ev(Ev::FuncExit { f, cause: ExitCause::BrToFuncLabel });
                    return Ok(vals);
                } else {
                    let idx = labels.len() - 1 - d;
                    let (cont, arity, height, is_loop, open) = {
                        let l = &labels[idx];
                        (l.cont, l.arity, l.height, l.is_loop, l.open)
                    };
                    let vals = stack.split_off(stack.len() - arity);
                    stack.truncate(height);
                    stack.extend(vals);
                    if is_loop {
                        labels.truncate(idx + 1);
                        if let Some(o) = open {
                            self.ev(Ev::Enter { f, open: o });
                        }
                    } else {
                        labels.truncate(idx);
                        if let Some(o) = open {
                            self.ev(Ev::AfterConstruct { f, open: o });
                            // an else-arm's construct is the whole if: nothing more to emit here
                        }
                    }
                    let _ = $bpc;
                    pc = cont;
                    continue;
                }
            }};
        }
        loop {
            if self.fuel == 0 {
                return Err(Stop::OutOfFuel);
            }
            self.fuel -= 1;
            let op = &code[pc];
            self.ev(Ev::Exec { f, pc });
            let mut structured = false;
            match op {
                O::Nop => {}
                O::Unreachable => {
                    self.ev(Ev::FuncExit { f, cause: ExitCause::Unreachable });
                    return Err(Stop::Trap("unreachable".into()));
                }
                O::Block { .. } | O::TryTable { .. } => {
                    structured = true;
                    let c = &func.ctl[&pc];
                    labels.push(Label { open: Some(pc), is_loop: false, cont: c.end + 1, arity: c.nresults, height: stack.len() - c.nparams });
                    self.ev(Ev::Enter { f, open: pc });
                }
                O::Loop { .. } => {
                    structured = true;
                    let c = &func.ctl[&pc];
                    labels.push(Label { open: Some(pc), is_loop: true, cont: pc + 1, arity: c.nparams, height: stack.len() - c.nparams });
                    self.ev(Ev::Enter { f, open: pc });
                }
                O::If { .. } => {
                    structured = true;
                    let cond = pop_i32!();
                    let c = &func.ctl[&pc];
                    let (end, els, np, nr) = (c.end, c.els, c.nparams, c.nresults);
                    if cond != 0 {
                        labels.push(Label { open: Some(pc), is_loop: false, cont: end + 1, arity: nr, height: stack.len() - np });
                        self.ev(Ev::Enter { f, open: pc });
                    } else if let Some(e) = els {
                        labels.push(Label { open: Some(pc), is_loop: false, cont: end + 1, arity: nr, height: stack.len() - np });
                        self.ev(Ev::Enter { f, open: e });
                        pc = e + 1;
                        continue;
                    } else {
                        // false path of an else-less if: continue after the end
                        self.ev(Ev::AfterConstruct { f, open: pc });
                        pc = end + 1;
                        continue;
                    }
                }
                O::Else => {
                    structured = true;
                    // reached sequentially: the then-arm fell through
                    let open = func.if_of_else[&pc];
                    self.ev(Ev::FallThrough { f, open });
                    let end = func.ctl[&open].end;
                    labels.pop();
                    self.ev(Ev::AfterConstruct { f, open });
                    pc = end + 1;
                    continue;
                }
                O::End => {
                    structured = true;
                    if pc == last {
                        let vals = stack.split_off(stack.len() - nres);
                        self.ev(Ev::FuncExit { f, cause: ExitCause::FallOff });
                        return Ok(vals);
                    }
                    if let Some(l) = labels.pop() {
                        if let Some(open) = l.open {
                            // which arm fell through?
                            let c = &func.ctl[&open];
                            match c.els {
                                Some(e) if matches!(code[open], O::If { .. }) => {
                                    // reaching the end sequentially means the else-arm fell through
                                    self.ev(Ev::FallThrough { f, open: e });
                                }
                                _ => self.ev(Ev::FallThrough { f, open }),
                            }
                            self.ev(Ev::AfterConstruct { f, open });
                        }
                    }
                }
                O::Br { relative_depth } => {
                    let d = *relative_depth as usize;
                    let (target, tl) = if d >= labels.len() { (None, false) } else { (labels[labels.len() - 1 - d].open, labels[labels.len() - 1 - d].is_loop) };
                    self.ev(Ev::Branch { f, pc, taken: true, target, target_is_loop: tl });
                    branch!(d, pc);
                }
                O::BrIf { relative_depth } => {
                    let c = pop_i32!();
                    let d = *relative_depth as usize;
                    let (target, tl) = if d >= labels.len() { (None, false) } else { (labels[labels.len() - 1 - d].open, labels[labels.len() - 1 - d].is_loop) };
                    self.ev(Ev::Branch { f, pc, taken: c != 0, target, target_is_loop: tl });
                    if c != 0 {
                        branch!(d, pc);
                    }
                }
                O::BrTable { targets } => {
                    let i = pop_i32!() as u32;
                    let ts: Vec<u32> = targets.targets().collect::<Result<_, _>>().map_err(|e| Stop::Unsupported(e.to_string()))?;
                    let d = if (i as usize) < ts.len() { ts[i as usize] } else { targets.default() } as usize;
                    let (target, tl) = if d >= labels.len() { (None, false) } else { (labels[labels.len() - 1 - d].open, labels[labels.len() - 1 - d].is_loop) };
                    self.ev(Ev::Branch { f, pc, taken: true, target, target_is_loop: tl });
                    branch!(d, pc);
                }
                O::BrOnNull { relative_depth } => {
                    let v = pop!();
                    let d = *relative_depth as usize;
                    let (target, tl) = if d >= labels.len() { (None, false) } else { (labels[labels.len() - 1 - d].open, labels[labels.len() - 1 - d].is_loop) };
                    let taken = matches!(v, Val::Ref(None));
                    self.ev(Ev::Branch { f, pc, taken, target, target_is_loop: tl });
                    if taken {
                        branch!(d, pc);
                    } else {
                        stack.push(v);
                    }
                }
                O::BrOnNonNull { relative_depth } => {
                    let v = pop!();
                    let d = *relative_depth as usize;
                    let (target, tl) = if d >= labels.len() { (None, false) } else { (labels[labels.len() - 1 - d].open, labels[labels.len() - 1 - d].is_loop) };
                    let taken = !matches!(v, Val::Ref(None));
                    self.ev(Ev::Branch { f, pc, taken, target, target_is_loop: tl });
                    if taken {
                        stack.push(v);
                        branch!(d, pc);
                    }
                }
                O::Return => {
                    let vals = stack.split_off(stack.len() - nres);
                    self.ev(Ev::FuncExit { f, cause: ExitCause::Return });
                    return Ok(vals);
                }
                O::Call { function_index } => {
                    let t = self.m.func_types[*function_index as usize];
                    let n = self.m.types[t as usize].0.len();
                    let args = stack.split_off(stack.len() - n);
                    let r = self.call(*function_index, args, depth + 1)?;
                    stack.extend(r);
                }
                O::CallIndirect { type_index, .. } => {
                    let slot = pop_i32!() as usize;
                    let callee = match self.m.table.get(slot) {
                        Some(Some(c)) => *c,
                        Some(None) => return Err(Stop::Trap("uninitialized element".into())),
                        None => return Err(Stop::Trap("undefined element".into())),
                    };
                    if self.m.types[self.m.func_types[callee as usize] as usize] != self.m.types[*type_index as usize] {
                        return Err(Stop::Trap("indirect call type mismatch".into()));
                    }
                    let n = self.m.types[*type_index as usize].0.len();
                    let args = stack.split_off(stack.len() - n);
                    let r = self.call(callee, args, depth + 1)?;
                    stack.extend(r);
                }
                O::ReturnCall { function_index } => {
                    let t = self.m.func_types[*function_index as usize];
                    let n = self.m.types[t as usize].0.len();
                    let args = stack.split_off(stack.len() - n);
                    self.ev(Ev::FuncExit { f, cause: ExitCause::ReturnCall });
                    return self.call(*function_index, args, depth + 1);
                }
                O::ReturnCallIndirect { type_index, .. } => {
                    let slot = pop_i32!() as usize;
                    let callee = match self.m.table.get(slot) {
                        Some(Some(c)) => *c,
                        Some(None) => return Err(Stop::Trap("uninitialized element".into())),
                        None => return Err(Stop::Trap("undefined element".into())),
                    };
                    if self.m.types[self.m.func_types[callee as usize] as usize] != self.m.types[*type_index as usize] {
                        return Err(Stop::Trap("indirect call type mismatch".into()));
                    }
                    let n = self.m.types[*type_index as usize].0.len();
                    let args = stack.split_off(stack.len() - n);
                    self.ev(Ev::FuncExit { f, cause: ExitCause::ReturnCall });
                    return self.call(callee, args, depth + 1);
                }
                O::Throw { tag_index } => {
                    self.ev(Ev::FuncExit { f, cause: ExitCause::Throw });
                    return Err(Stop::Exception(*tag_index, vec![]));
                }
                O::Drop => {
                    pop!();
                }
                O::Select | O::TypedSelect { .. } => {
                    let c = pop_i32!();
                    let b = pop!();
                    let a = pop!();
                    stack.push(if c != 0 { a } else { b });
                }
                O::LocalGet { local_index } => stack.push(locals[*local_index as usize]),
                O::LocalSet { local_index } => locals[*local_index as usize] = pop!(),
                O::LocalTee { local_index } => {
                    let v = pop!();
                    locals[*local_index as usize] = v;
                    stack.push(v);
                }
                O::GlobalGet { global_index } => stack.push(self.globals[*global_index as usize]),
                O::GlobalSet { global_index } => self.globals[*global_index as usize] = pop!(),
                O::I32Const { value } => stack.push(Val::I32(*value)),
                O::I64Const { value } => stack.push(Val::I64(*value)),
                O::RefNull { .. } => stack.push(Val::Ref(None)),
                O::RefFunc { function_index } => stack.push(Val::Ref(Some(*function_index))),
                O::RefIsNull => {
                    let v = pop!();
                    stack.push(Val::I32(matches!(v, Val::Ref(None)) as i32));
                }
                O::I32Load { memarg } | O::I32Load8U { memarg } | O::I32Load8S { memarg } | O::I32Load16U { memarg } | O::I32Load16S { memarg } => {
                    let a = pop_i32!() as u32 as u64 + memarg.offset;
                    let n = match op {
                        O::I32Load { .. } => 4,
                        O::I32Load8U { .. } | O::I32Load8S { .. } => 1,
                        _ => 2,
                    };
                    if a + n > self.mem.len() as u64 {
                        return Err(Stop::Trap("out of bounds memory access".into()));
                    }
                    let a = a as usize;
                    let v = match op {
                        O::I32Load { .. } => i32::from_le_bytes(self.mem[a..a + 4].try_into().unwrap()),
                        O::I32Load8U { .. } => self.mem[a] as i32,
                        O::I32Load8S { .. } => self.mem[a] as i8 as i32,
                        O::I32Load16U { .. } => u16::from_le_bytes(self.mem[a..a + 2].try_into().unwrap()) as i32,
                        _ => i16::from_le_bytes(self.mem[a..a + 2].try_into().unwrap()) as i32,
                    };
                    stack.push(Val::I32(v));
                }
                O::I32Store { memarg } | O::I32Store8 { memarg } | O::I32Store16 { memarg } => {
                    let v = pop_i32!();
                    let a = pop_i32!() as u32 as u64 + memarg.offset;
                    let n = match op {
                        O::I32Store { .. } => 4,
                        O::I32Store8 { .. } => 1,
                        _ => 2,
                    };
                    if a + n > self.mem.len() as u64 {
                        return Err(Stop::Trap("out of bounds memory access".into()));
                    }
                    let a = a as usize;
                    self.mem[a..a + n as usize].copy_from_slice(&v.to_le_bytes()[..n as usize]);
                }
                O::MemorySize { .. } => stack.push(Val::I32((self.mem.len() / 65536) as i32)),
                O::I32Eqz => {
                    let a = pop_i32!();
                    stack.push(Val::I32((a == 0) as i32));
                }
                O::I64Eqz => {
                    let a = pop_i64!();
                    stack.push(Val::I32((a == 0) as i32));
                }
                O::I32WrapI64 => {
                    let a = pop_i64!();
                    stack.push(Val::I32(a as i32));
                }
                O::I64ExtendI32S => {
                    let a = pop_i32!();
                    stack.push(Val::I64(a as i64));
                }
                O::I64ExtendI32U => {
                    let a = pop_i32!();
                    stack.push(Val::I64(a as u32 as i64));
                }
                O::I64Add | O::I64Sub | O::I64Mul | O::I64And | O::I64Or | O::I64Xor => {
                    let b = pop_i64!();
                    let a = pop_i64!();
                    stack.push(Val::I64(match op {
                        O::I64Add => a.wrapping_add(b),
                        O::I64Sub => a.wrapping_sub(b),
                        O::I64Mul => a.wrapping_mul(b),
                        O::I64And => a & b,
                        O::I64Or => a | b,
                        _ => a ^ b,
                    }));
                }
                O::I32Add
                | O::I32Sub
                | O::I32Mul
                | O::I32And
                | O::I32Or
                | O::I32Xor
                | O::I32Shl
                | O::I32ShrS
                | O::I32ShrU
                | O::I32Rotl
                | O::I32Rotr
                | O::I32Eq
                | O::I32Ne
                | O::I32LtS
                | O::I32LtU
                | O::I32GtS
                | O::I32GtU
                | O::I32LeS
                | O::I32LeU
                | O::I32GeS
                | O::I32GeU
                | O::I32DivU
                | O::I32RemU
                | O::I32DivS
                | O::I32RemS => {
                    let b = pop_i32!();
                    let a = pop_i32!();
                    let (ua, ub) = (a as u32, b as u32);
                    let v = match op {
                        O::I32Add => a.wrapping_add(b),
                        O::I32Sub => a.wrapping_sub(b),
                        O::I32Mul => a.wrapping_mul(b),
                        O::I32And => a & b,
                        O::I32Or => a | b,
                        O::I32Xor => a ^ b,
                        O::I32Shl => a.wrapping_shl(ub & 31),
                        O::I32ShrS => a.wrapping_shr(ub & 31),
                        O::I32ShrU => (ua.wrapping_shr(ub & 31)) as i32,
                        O::I32Rotl => ua.rotate_left(ub & 31) as i32,
                        O::I32Rotr => ua.rotate_right(ub & 31) as i32,
                        O::I32Eq => (a == b) as i32,
                        O::I32Ne => (a != b) as i32,
                        O::I32LtS => (a < b) as i32,
                        O::I32LtU => (ua < ub) as i32,
                        O::I32GtS => (a > b) as i32,
                        O::I32GtU => (ua > ub) as i32,
                        O::I32LeS => (a <= b) as i32,
                        O::I32LeU => (ua <= ub) as i32,
                        O::I32GeS => (a >= b) as i32,
                        O::I32GeU => (ua >= ub) as i32,
                        O::I32DivU => {
                            if ub == 0 {
                                return Err(Stop::Trap("integer divide by zero".into()));
                            }
                            (ua / ub) as i32
                        }
                        O::I32RemU => {
                            if ub == 0 {
                                return Err(Stop::Trap("integer divide by zero".into()));
                            }
                            (ua % ub) as i32
                        }
                        O::I32DivS => {
                            if b == 0 {
                                return Err(Stop::Trap("integer divide by zero".into()));
                            }
                            if a == i32::MIN && b == -1 {
                                return Err(Stop::Trap("integer overflow".into()));
                            }
                            a.wrapping_div(b)
                        }
                        _ => {
                            if b == 0 {
                                return Err(Stop::Trap("integer divide by zero".into()));
                            }
                            a.wrapping_rem(b)
                        }
                    };
                    stack.push(Val::I32(v));
                }
                other => return Err(Stop::Unsupported(format!("{:?}", other))),
            }
            if !structured {
                self.ev(Ev::Done { f, pc });
            }
            pc += 1;
        }
    }
}

pub fn mem_hash(mem: &[u8]) -> u64 {
    crate::rng::fnv(mem)
}
