//! Program generator for C16–C20: structured programs that terminate by construction,
//! carry their own logical clock (`tick`, an exported mutable i64 global incremented by
//! original program code after every statement, at the top of every body, before every
//! branch and after every construct) and import `host.probe : (i32) -> ()` as function 0
//! so that adding probes shifts no index space.

use crate::rng::Rng;
use std::borrow::Cow;
use wasm_encoder::{
    BlockType, CodeSection, ConstExpr, DataSection, ElementSection, Elements, EntityType, ExportKind, ExportSection,
    Function, FunctionSection, GlobalSection, GlobalType, ImportSection, Instruction as I, MemArg, MemorySection,
    MemoryType, Module, RefType, TableSection, TableType, TagKind, TagSection, TagType, TypeSection, ValType,
};

pub const MAGIC: i32 = 0x5eed;

#[derive(Clone, Debug, Default)]
pub struct Prog {
    pub bytes: Vec<u8>,
    /// (params, results) of local function k (function index k+nimp)
    pub sigs: Vec<(usize, usize)>,
    pub has_exn: bool,
    pub tick_global: u32,
    /// imported functions (1 = host.probe only; 2 = host.probe + the never-called host.unused)
    pub nimp: u32,
}

#[derive(Clone, Copy, PartialEq)]
enum Lbl {
    Block,
    Loop,
    If,
}

struct Cx<'r> {
    rng: &'r mut Rng,
    out: Vec<I<'static>>,
    nparams: usize,
    nresults: usize,
    /// i32 locals usable as variables (indices)
    vars: Vec<u32>,
    /// dedicated loop counters (indices), one per loop nesting level
    counters: Vec<u32>,
    loop_depth: usize,
    labels: Vec<Lbl>,
    this: usize,
    /// function index of local function 0 (= number of imported functions)
    fbase: u32,
    sigs: Vec<(usize, usize)>,
    type_of_sig: Vec<u32>,
    has_exn: bool,
    mv_type: u32,
    calls_left: usize,
}

const TICK: u32 = 0;
const G1: u32 = 1;
const G2: u32 = 2;

impl<'r> Cx<'r> {
    fn tick(&mut self) {
        self.out.push(I::GlobalGet(TICK));
        self.out.push(I::I64Const(1));
        self.out.push(I::I64Add);
        self.out.push(I::GlobalSet(TICK));
    }

    /// a tick, in 1 of `one_in` cases wrapped in a block of its own (`block; <tick>; end`): a construct that a block
    /// alternate can replace by a plain copy of the tick without changing what the program does
    fn tick_maybe_wrapped(&mut self, one_in: u32) {
        if self.rng.chance(1, one_in) {
            self.out.push(I::Block(BlockType::Empty));
            self.tick();
            self.out.push(I::End);
        } else {
            self.tick();
        }
    }

    fn expr(&mut self, depth: usize) {
        let c = if depth == 0 { self.rng.below(3) } else { self.rng.below(9) };
        match c {
            0 => {
                let v = match self.rng.below(5) {
                    0 => 0,
                    1 => 1,
                    2 => -1,
                    3 => MAGIC,
                    _ => self.rng.next_u32() as i32 & 0xff,
                };
                self.out.push(I::I32Const(v));
            }
            1 => {
                let v = *self.rng.pick(&self.vars);
                self.out.push(I::LocalGet(v));
            }
            2 => self.out.push(I::GlobalGet(if self.rng.bool() { G1 } else { G2 })),
            3 => {
                self.expr(depth - 1);
                self.out.push(I::I32Const(0xfc));
                self.out.push(I::I32And);
                let k = self.rng.below(3);
                self.out.push(match k {
                    0 => I::I32Load(MemArg { offset: self.rng.below(16) as u64, align: 2, memory_index: 0 }),
                    1 => I::I32Load8U(MemArg { offset: self.rng.below(16) as u64, align: 0, memory_index: 0 }),
                    _ => I::I32Load16S(MemArg { offset: self.rng.below(16) as u64, align: 1, memory_index: 0 }),
                });
            }
            4 => {
                self.expr(depth - 1);
                self.out.push(I::I32Eqz);
            }
            5 => {
                // division with a divisor forced non-zero
                self.expr(depth - 1);
                self.expr(depth - 1);
                self.out.push(I::I32Const(1));
                self.out.push(I::I32Or);
                self.out.push(if self.rng.bool() { I::I32DivU } else { I::I32RemU });
            }
            6 => {
                self.expr(depth - 1);
                self.expr(depth - 1);
                self.expr(depth - 1);
                self.out.push(I::Select);
            }
            _ => {
                self.expr(depth - 1);
                self.expr(depth - 1);
                let ops = [
                    I::I32Add,
                    I::I32Sub,
                    I::I32Mul,
                    I::I32And,
                    I::I32Or,
                    I::I32Xor,
                    I::I32Shl,
                    I::I32ShrU,
                    I::I32ShrS,
                    I::I32Rotl,
                    I::I32Eq,
                    I::I32Ne,
                    I::I32LtS,
                    I::I32LtU,
                    I::I32GtS,
                    I::I32GeU,
                    I::I32LeS,
                ];
                let op = self.rng.pick(&ops).clone();
                self.out.push(op);
            }
        }
    }

    fn cond(&mut self) {
        // conditions that are true reasonably often
        self.expr(1);
        if self.rng.bool() {
            self.out.push(I::I32Const(1));
            self.out.push(I::I32And);
        }
    }

    /// labels that may be branched to: depth (0 = innermost) of every non-loop label, plus the function label
    fn branch_targets(&self, allow_func: bool) -> Vec<u32> {
        let n = self.labels.len();
        let mut v: Vec<u32> = (0..n).filter(|d| self.labels[n - 1 - d] != Lbl::Loop).map(|d| d as u32).collect();
        if allow_func {
            v.push(n as u32);
        }
        v
    }

    fn push_results(&mut self) {
        for _ in 0..self.nresults {
            self.expr(1);
        }
    }

    /// statement list; returns true if the list ended with an unconditional transfer
    fn stmts(&mut self, n: usize, budget: usize) -> bool {
        for _ in 0..n {
            if self.stmt(budget) {
                return true;
            }
            self.tick_maybe_wrapped(12);
        }
        false
    }

    /// one statement; true = control never continues after it
    fn stmt(&mut self, budget: usize) -> bool {
        let k = self.rng.below(if budget > 0 { 22 } else { 8 });
        match k {
            0 | 1 => {
                self.expr(2);
                let v = *self.rng.pick(&self.vars);
                self.out.push(if self.rng.chance(1, 4) { I::LocalTee(v) } else { I::LocalSet(v) });
                if matches!(self.out.last(), Some(I::LocalTee(_))) {
                    self.out.push(I::Drop);
                }
                false
            }
            2 => {
                self.expr(2);
                self.out.push(I::GlobalSet(if self.rng.bool() { G1 } else { G2 }));
                false
            }
            3 => {
                self.expr(1);
                self.out.push(I::I32Const(0xfc));
                self.out.push(I::I32And);
                self.expr(2);
                let k = self.rng.below(3);
                self.out.push(match k {
                    0 => I::I32Store(MemArg { offset: self.rng.below(16) as u64, align: 2, memory_index: 0 }),
                    1 => I::I32Store8(MemArg { offset: self.rng.below(16) as u64, align: 0, memory_index: 0 }),
                    _ => I::I32Store16(MemArg { offset: self.rng.below(16) as u64, align: 1, memory_index: 0 }),
                });
                false
            }
            4 => {
                self.out.push(I::Nop);
                false
            }
            5 | 6 => self.call_stmt(),
            7 => {
                // guarded unreachable / throw
                self.out.push(I::LocalGet(self.vars[0]));
                self.out.push(I::I32Const(MAGIC));
                self.out.push(I::I32Eq);
                self.out.push(I::If(BlockType::Empty));
                self.labels.push(Lbl::If);
                self.tick();
                if self.has_exn && self.rng.bool() {
                    self.out.push(I::Throw(0));
                } else {
                    self.out.push(I::Unreachable);
                }
                self.labels.pop();
                self.out.push(I::End);
                false
            }
            8..=10 => {
                // if / else
                self.cond();
                self.out.push(I::If(BlockType::Empty));
                self.labels.push(Lbl::If);
                self.tick();
                let n = self.rng.range(1, 3);
                let d1 = self.stmts(n, budget - 1);
                let _ = d1;
                if self.rng.chance(2, 3) {
                    self.out.push(I::Else);
                    self.tick();
                    let n = self.rng.range(1, 2);
                    self.stmts(n, budget - 1);
                }
                self.labels.pop();
                self.out.push(I::End);
                false
            }
            11..=13 => {
                // block with branches out of it (1 in 6: a try_table without catch clauses, which nests like a block)
                if self.rng.chance(1, 6) {
                    self.out.push(I::TryTable(BlockType::Empty, Cow::Owned(vec![])));
                } else {
                    self.out.push(I::Block(BlockType::Empty));
                }
                self.labels.push(Lbl::Block);
                self.tick();
                let n = self.rng.range(1, 4);
                self.stmts(n, budget - 1);
                self.labels.pop();
                self.out.push(I::End);
                false
            }
            14 | 15 => {
                // bounded loop
                if self.loop_depth >= self.counters.len() {
                    self.out.push(I::Nop);
                    return false;
                }
                let c = self.counters[self.loop_depth];
                let bound = self.rng.range(1, 3) as i32;
                self.out.push(I::I32Const(0));
                self.out.push(I::LocalSet(c));
                self.out.push(I::Loop(BlockType::Empty));
                self.labels.push(Lbl::Loop);
                self.loop_depth += 1;
                self.tick();
                // the counter is advanced first so that branches out of the body cannot skip it
                self.out.push(I::LocalGet(c));
                self.out.push(I::I32Const(1));
                self.out.push(I::I32Add);
                self.out.push(I::LocalSet(c));
                let n = self.rng.range(1, 3);
                let diverged = self.stmts(n, budget - 1);
                if !diverged {
                    self.tick();
                    self.out.push(I::LocalGet(c));
                    self.out.push(I::I32Const(bound));
                    self.out.push(I::I32LtU);
                    self.out.push(I::BrIf(0));
                }
                self.loop_depth -= 1;
                self.labels.pop();
                self.out.push(I::End);
                false
            }
            16 => {
                // br (unconditional) to an enclosing label or the function label: last statement of the list
                let t = self.branch_targets(true);
                let d = *self.rng.pick(&t);
                self.tick();
                if d as usize == self.labels.len() {
                    self.push_results();
                }
                self.out.push(I::Br(d));
                true
            }
            17 | 18 => {
                // br_if
                let t = self.branch_targets(self.nresults == 0);
                if t.is_empty() {
                    self.out.push(I::Nop);
                    return false;
                }
                let d = *self.rng.pick(&t);
                self.tick();
                self.cond();
                self.out.push(I::BrIf(d));
                false
            }
            19 => {
                // br_table over several depths (and the function label when it takes no values)
                let t = self.branch_targets(self.nresults == 0);
                if t.is_empty() {
                    self.out.push(I::Nop);
                    return false;
                }
                let n = self.rng.range(1, 4);
                let mut targets: Vec<u32> = (0..n).map(|_| *self.rng.pick(&t)).collect();
                // tables that repeat a label before naming a new one (1 in 3 of the longer tables)
                if n >= 3 && self.rng.chance(1, 3) {
                    targets[1] = targets[0];
                }
                let default = *self.rng.pick(&t);
                self.tick();
                self.expr(1);
                self.out.push(I::I32Const(3));
                self.out.push(I::I32And);
                self.out.push(I::BrTable(Cow::Owned(targets), default));
                true
            }
            20 => {
                // guarded early return / tail call
                self.cond();
                self.out.push(I::If(BlockType::Empty));
                self.labels.push(Lbl::If);
                self.tick();
                let tail: Vec<usize> =
                    (self.this + 1..self.sigs.len()).filter(|j| self.sigs[*j].1 == self.nresults).collect();
                if !tail.is_empty() && self.rng.chance(1, 3) && self.calls_left > 0 {
                    self.calls_left -= 1;
                    let j = *self.rng.pick(&tail);
                    for _ in 0..self.sigs[j].0 {
                        self.expr(1);
                    }
                    if self.rng.chance(1, 3) {
                        // tail call through the table: slot j holds function j+1
                        self.out.push(I::I32Const(j as i32));
                        self.out.push(I::ReturnCallIndirect { type_index: self.type_of_sig[j], table_index: 0 });
                    } else {
                        self.out.push(I::ReturnCall(j as u32 + self.fbase));
                    }
                } else {
                    self.push_results();
                    self.out.push(I::Return);
                }
                self.labels.pop();
                self.out.push(I::End);
                false
            }
            _ => {
                // multi-value block, or br_on_null
                if self.rng.bool() {
                    self.out.push(I::Block(BlockType::FunctionType(self.mv_type)));
                    self.labels.push(Lbl::Block);
                    self.tick();
                    self.expr(1);
                    self.expr(1);
                    self.labels.pop();
                    self.out.push(I::End);
                    let v = *self.rng.pick(&self.vars);
                    self.out.push(I::LocalSet(v));
                    self.out.push(I::Drop);
                } else {
                    let t = self.branch_targets(self.nresults == 0);
                    if t.is_empty() {
                        self.out.push(I::Nop);
                        return false;
                    }
                    let d = *self.rng.pick(&t);
                    self.tick();
                    if self.rng.bool() {
                        self.out.push(I::RefNull(wasm_encoder::HeapType::Abstract { shared: false, ty: wasm_encoder::AbstractHeapType::Func }));
                    } else {
                        self.out.push(I::RefFunc(self.this as u32 + self.fbase));
                    }
                    self.out.push(I::BrOnNull(d));
                    self.out.push(I::Drop);
                }
                false
            }
        }
    }

    fn call_stmt(&mut self) -> bool {
        let callees: Vec<usize> = (self.this + 1..self.sigs.len()).collect();
        if callees.is_empty() || self.calls_left == 0 || self.loop_depth > 1 {
            self.out.push(I::Nop);
            return false;
        }
        self.calls_left -= 1;
        let j = *self.rng.pick(&callees);
        for _ in 0..self.sigs[j].0 {
            self.expr(1);
        }
        if self.rng.chance(1, 4) {
            // table slot j holds function j+1
            self.out.push(I::I32Const(j as i32));
            self.out.push(I::CallIndirect { type_index: self.type_of_sig[j], table_index: 0 });
        } else {
            self.out.push(I::Call(j as u32 + self.fbase));
        }
        for _ in 0..self.sigs[j].1 {
            if self.rng.bool() {
                let v = *self.rng.pick(&self.vars);
                self.out.push(I::LocalSet(v));
            } else {
                self.out.push(I::Drop);
            }
        }
        false
    }
}

pub fn generate(rng: &mut Rng) -> Prog {
    let nfuncs = rng.range(1, 5);
    let has_exn = rng.chance(1, 3);
    // 1 in 4 programs import a second function that nothing calls or references (it can be deleted)
    let nimp: u32 = if rng.chance(1, 4) { 2 } else { 1 };
    let sigs: Vec<(usize, usize)> = (0..nfuncs).map(|_| (rng.range(1, 3), rng.below(3))).collect();
    let mut module = Module::new();
    // types: 0 = (i32)->() probe ; then one per distinct sig; mv block type ()->(i32 i32); tag type ()->()
    let mut types = TypeSection::new();
    types.ty().function([ValType::I32], []);
    let mut type_list: Vec<(usize, usize)> = vec![(1, 0)];
    let mut type_of_sig = vec![];
    for s in &sigs {
        if let Some(p) = type_list.iter().position(|t| t == s) {
            type_of_sig.push(p as u32);
        } else {
            types.ty().function(std::iter::repeat(ValType::I32).take(s.0), std::iter::repeat(ValType::I32).take(s.1));
            type_list.push(*s);
            type_of_sig.push(type_list.len() as u32 - 1);
        }
    }
    let mv_type = if let Some(p) = type_list.iter().position(|t| *t == (0, 2)) {
        p as u32
    } else {
        types.ty().function([], [ValType::I32, ValType::I32]);
        type_list.push((0, 2));
        type_list.len() as u32 - 1
    };
    let tag_type = if let Some(p) = type_list.iter().position(|t| *t == (0, 0)) {
        p as u32
    } else {
        types.ty().function([], []);
        type_list.push((0, 0));
        type_list.len() as u32 - 1
    };
    module.section(&types);
    let mut imports = ImportSection::new();
    imports.import("host", "probe", EntityType::Function(0));
    if nimp == 2 {
        imports.import("host", "unused", EntityType::Function(0));
    }
    module.section(&imports);
    let mut funcs = FunctionSection::new();
    for t in &type_of_sig {
        funcs.function(*t);
    }
    module.section(&funcs);
    let mut tables = TableSection::new();
    tables.table(TableType { element_type: RefType::FUNCREF, table64: false, minimum: nfuncs as u64, maximum: None, shared: false });
    module.section(&tables);
    let mut mems = MemorySection::new();
    mems.memory(MemoryType { minimum: 1, maximum: Some(1), memory64: false, shared: false, page_size_log2: None });
    module.section(&mems);
    if has_exn {
        let mut tags = TagSection::new();
        tags.tag(TagType { kind: TagKind::Exception, func_type_idx: tag_type });
        module.section(&tags);
    }
    let mut globals = GlobalSection::new();
    globals.global(GlobalType { val_type: ValType::I64, mutable: true, shared: false }, &ConstExpr::i64_const(0));
    globals.global(GlobalType { val_type: ValType::I32, mutable: true, shared: false }, &ConstExpr::i32_const(rng.below(100) as i32));
    globals.global(GlobalType { val_type: ValType::I32, mutable: true, shared: false }, &ConstExpr::i32_const(MAGIC));
    module.section(&globals);
    let mut exports = ExportSection::new();
    exports.export("tick", ExportKind::Global, 0);
    exports.export("g1", ExportKind::Global, 1);
    exports.export("g2", ExportKind::Global, 2);
    exports.export("mem", ExportKind::Memory, 0);
    for k in 0..nfuncs {
        exports.export(&format!("f{}", k + 1), ExportKind::Func, k as u32 + nimp);
    }
    module.section(&exports);
    let mut elems = ElementSection::new();
    elems.active(None, &ConstExpr::i32_const(0), Elements::Functions(Cow::Owned((nimp..nimp + nfuncs as u32).collect())));
    module.section(&elems);
    let mut code = CodeSection::new();
    for k in 0..nfuncs {
        let (np, nr) = sigs[k];
        let nvars = rng.range(1, 3);
        let ncounters = 2;
        let mut f = Function::new([((nvars + ncounters) as u32, ValType::I32)]);
        let mut vars: Vec<u32> = (0..np as u32).collect();
        vars.extend((np as u32)..(np + nvars) as u32);
        let counters: Vec<u32> = ((np + nvars) as u32..(np + nvars + ncounters) as u32).collect();
        let mut cx = Cx {
            rng,
            out: vec![],
            nparams: np,
            nresults: nr,
            vars,
            counters,
            loop_depth: 0,
            labels: vec![],
            this: k,
            fbase: nimp,
            sigs: sigs.clone(),
            type_of_sig: type_of_sig.clone(),
            has_exn,
            mv_type,
            calls_left: 3,
        };
        let _ = cx.nparams;
        cx.tick_maybe_wrapped(5);
        let n = cx.rng.range(2, 7);
        let diverged = cx.stmts(n, 3);
        if !diverged {
            cx.push_results();
        }
        cx.out.push(I::End);
        for i in &cx.out {
            f.instruction(i);
        }
        code.function(&f);
    }
    module.section(&code);
    let mut data = DataSection::new();
    let n = rng.below(24);
    let payload = rng.bytes(8 + n);
    data.active(0, &ConstExpr::i32_const(4), payload);
    module.section(&data);
    Prog { bytes: module.finish(), sigs, has_exn, tick_global: 0, nimp }
}

pub fn generate_valid(rng: &mut Rng) -> Result<Prog, String> {
    let mut last = String::new();
    for _ in 0..6 {
        let p = generate(rng);
        match crate::sym::validate(&p.bytes) {
            Ok(()) => return Ok(p),
            Err(e) => last = e,
        }
    }
    Err(last)
}
