//! D — decoder: wasmparser → owned, ordered normal form (RawModule), and the symbolic
//! form in which every function / global / memory index is replaced by the identity of
//! the entity it designates. Independent of wirm's IR: the only code trusted here is
//! wasmparser (decoding) and wasm-encoder's `Reencode` traversal (which tells us, for
//! every operator, which immediates are function / global / memory indices).

use std::collections::BTreeMap;
use std::fmt::Write as _;
use wasm_encoder::reencode::{Error as RErr, Reencode};
use wasm_encoder::Encode;
use wasmparser::{
    CompositeInnerType, ConstExpr, DataKind, ElementItems, ElementKind, ExternalKind, Operator, Parser, Payload,
    TypeRef, ValType, WasmFeatures,
};

#[derive(Clone, Copy, Debug, PartialEq, Eq, PartialOrd, Ord, Hash)]
pub enum RefKind {
    Func,
    Global,
    Memory,
}

#[derive(Clone, Debug, PartialEq, Eq)]
pub struct SymOp {
    /// instruction re-encoded with every func/global/memory index set to 0
    pub bytes: Vec<u8>,
    /// the indices that were there, in operand order
    pub refs: Vec<(RefKind, u32)>,
    /// short mnemonic (first word of Debug) for classification
    pub name: String,
}

struct Rec {
    refs: Vec<(RefKind, u32)>,
}
impl Reencode for Rec {
    type Error = std::convert::Infallible;
    fn function_index(&mut self, f: u32) -> Result<u32, RErr<Self::Error>> {
        self.refs.push((RefKind::Func, f));
        Ok(0)
    }
    fn global_index(&mut self, g: u32) -> Result<u32, RErr<Self::Error>> {
        self.refs.push((RefKind::Global, g));
        Ok(0)
    }
    fn memory_index(&mut self, m: u32) -> Result<u32, RErr<Self::Error>> {
        self.refs.push((RefKind::Memory, m));
        Ok(0)
    }
}

pub fn op_name(op: &Operator) -> String {
    let d = format!("{:?}", op);
    d.split(|c: char| !c.is_alphanumeric()).next().unwrap_or("").to_string()
}

pub fn sym_op(op: &Operator) -> Result<SymOp, String> {
    let mut r = Rec { refs: vec![] };
    let ins = r.instruction(op.clone()).map_err(|e| format!("reencode: {}", e))?;
    let mut bytes = vec![];
    ins.encode(&mut bytes);
    Ok(SymOp { bytes, refs: r.refs, name: op_name(op) })
}

pub fn sym_ops_of_const(e: &ConstExpr) -> Result<Vec<SymOp>, String> {
    let mut out = vec![];
    let mut rd = e.get_operators_reader();
    loop {
        let op = rd.read().map_err(|e| e.to_string())?;
        if matches!(op, Operator::End) && rd.eof() {
            break;
        }
        out.push(sym_op(&op)?);
    }
    Ok(out)
}

#[derive(Clone, Debug, PartialEq, Eq, Default)]
pub struct RawFunc {
    pub type_idx: u32,
    pub locals: Vec<String>,
    pub ops: Vec<SymOp>,
}

#[derive(Clone, Debug, PartialEq, Eq)]
pub enum RawElemItems {
    Funcs(Vec<u32>),
    Exprs(String, Vec<Vec<SymOp>>),
}
#[derive(Clone, Debug, PartialEq, Eq)]
pub struct RawElem {
    /// "passive" | "declared" | "active"
    pub kind: String,
    pub table: Option<u32>,
    pub offset: Vec<SymOp>,
    pub items: RawElemItems,
}
#[derive(Clone, Debug, PartialEq, Eq)]
pub struct RawData {
    pub active: bool,
    pub mem: u32,
    pub offset: Vec<SymOp>,
    pub bytes: Vec<u8>,
}
#[derive(Clone, Debug, PartialEq, Eq)]
pub struct RawImport {
    pub module: String,
    pub name: String,
    /// "func" | "global" | "memory" | "table" | "tag"
    pub kind: String,
    pub desc: String,
}
#[derive(Clone, Debug, PartialEq, Eq, Default)]
pub struct Names {
    pub module: Option<String>,
    pub funcs: BTreeMap<u32, String>,
    pub locals: BTreeMap<u32, BTreeMap<u32, String>>,
    pub labels: BTreeMap<u32, BTreeMap<u32, String>>,
    pub types: BTreeMap<u32, String>,
    pub tables: BTreeMap<u32, String>,
    pub memories: BTreeMap<u32, String>,
    pub globals: BTreeMap<u32, String>,
    pub elems: BTreeMap<u32, String>,
    pub datas: BTreeMap<u32, String>,
    pub fields: BTreeMap<u32, BTreeMap<u32, String>>,
    pub tags: BTreeMap<u32, String>,
    pub present: bool,
}
#[derive(Clone, Debug, PartialEq, Eq, Default)]
pub struct RawModule {
    /// one string per rec group: "rec[..]" or single subtype
    pub type_groups: Vec<String>,
    /// flattened subtypes (index space)
    pub types: Vec<String>,
    pub imports: Vec<RawImport>,
    pub funcs: Vec<RawFunc>,
    pub tables: Vec<(String, Option<Vec<SymOp>>)>,
    pub memories: Vec<String>,
    pub globals: Vec<(String, Vec<SymOp>)>,
    pub exports: Vec<(String, String, u32)>,
    pub start: Option<u32>,
    pub elems: Vec<RawElem>,
    pub data_count: Option<u32>,
    pub datas: Vec<RawData>,
    pub tags: Vec<u32>,
    /// (name, bytes) of custom sections other than "name", in order
    pub customs: Vec<(String, Vec<u8>)>,
    pub names: Names,
    pub n_imp_funcs: u32,
    pub n_imp_globals: u32,
    pub n_imp_mems: u32,
}

fn vt(v: ValType) -> String {
    format!("{}", v)
}

fn name_map(m: wasmparser::NameMap) -> Result<BTreeMap<u32, String>, String> {
    let mut out = BTreeMap::new();
    for n in m {
        let n = n.map_err(|e| e.to_string())?;
        out.insert(n.index, n.name.to_string());
    }
    Ok(out)
}
fn ind_map(m: wasmparser::IndirectNameMap) -> Result<BTreeMap<u32, BTreeMap<u32, String>>, String> {
    let mut out = BTreeMap::new();
    for n in m {
        let n = n.map_err(|e| e.to_string())?;
        out.insert(n.index, name_map(n.names)?);
    }
    Ok(out)
}

pub fn decode(wasm: &[u8]) -> Result<RawModule, String> {
    let mut m = RawModule::default();
    let mut func_types: Vec<u32> = vec![];
    for payload in Parser::new(0).parse_all(wasm) {
        let payload = payload.map_err(|e| e.to_string())?;
        match payload {
            Payload::TypeSection(r) => {
                for g in r {
                    let g = g.map_err(|e| e.to_string())?;
                    let mut gs = String::new();
                    let explicit = g.is_explicit_rec_group();
                    if explicit {
                        gs.push_str("rec[");
                    }
                    for st in g.types() {
                        let mut s = String::new();
                        let _ = write!(
                            s,
                            "sub final={} super={:?} shared={} ",
                            st.is_final,
                            st.supertype_idx.map(|i| i.as_module_index()),
                            st.composite_type.shared
                        );
                        match &st.composite_type.inner {
                            CompositeInnerType::Func(f) => {
                                let _ = write!(
                                    s,
                                    "func({})->({})",
                                    f.params().iter().map(|v| vt(*v)).collect::<Vec<_>>().join(","),
                                    f.results().iter().map(|v| vt(*v)).collect::<Vec<_>>().join(",")
                                );
                            }
                            CompositeInnerType::Array(a) => {
                                let _ = write!(s, "array(mut={} {})", a.0.mutable, a.0.element_type);
                            }
                            CompositeInnerType::Struct(st2) => {
                                let _ = write!(
                                    s,
                                    "struct({})",
                                    st2.fields
                                        .iter()
                                        .map(|f| format!("mut={} {}", f.mutable, f.element_type))
                                        .collect::<Vec<_>>()
                                        .join(";")
                                );
                            }
                            CompositeInnerType::Cont(c) => {
                                let _ = write!(s, "cont({:?})", c.0);
                            }
                        }
                        gs.push_str(&s);
                        gs.push('|');
                        m.types.push(s);
                    }
                    if explicit {
                        gs.push(']');
                    }
                    m.type_groups.push(gs);
                }
            }
            Payload::ImportSection(r) => {
                for i in r {
                    let i = i.map_err(|e| e.to_string())?;
                    let (kind, desc) = match i.ty {
                        TypeRef::Func(t) => {
                            m.n_imp_funcs += 1;
                            ("func", format!("type {}", t))
                        }
                        TypeRef::Global(g) => {
                            m.n_imp_globals += 1;
                            ("global", format!("{} mut={} shared={}", vt(g.content_type), g.mutable, g.shared))
                        }
                        TypeRef::Memory(mt) => {
                            m.n_imp_mems += 1;
                            ("memory", format!("{:?}", mt))
                        }
                        TypeRef::Table(t) => ("table", format!("{:?}", t)),
                        TypeRef::Tag(t) => ("tag", format!("{:?}", t)),
                    };
                    m.imports.push(RawImport { module: i.module.into(), name: i.name.into(), kind: kind.into(), desc });
                }
            }
            Payload::FunctionSection(r) => {
                for f in r {
                    func_types.push(f.map_err(|e| e.to_string())?);
                }
            }
            Payload::TableSection(r) => {
                for t in r {
                    let t = t.map_err(|e| e.to_string())?;
                    let init = match t.init {
                        wasmparser::TableInit::RefNull => None,
                        wasmparser::TableInit::Expr(e) => Some(sym_ops_of_const(&e)?),
                    };
                    m.tables.push((format!("{:?}", t.ty), init));
                }
            }
            Payload::MemorySection(r) => {
                for t in r {
                    m.memories.push(format!("{:?}", t.map_err(|e| e.to_string())?));
                }
            }
            Payload::TagSection(r) => {
                for t in r {
                    m.tags.push(t.map_err(|e| e.to_string())?.func_type_idx);
                }
            }
            Payload::GlobalSection(r) => {
                for g in r {
                    let g = g.map_err(|e| e.to_string())?;
                    m.globals.push((
                        format!("{} mut={} shared={}", vt(g.ty.content_type), g.ty.mutable, g.ty.shared),
                        sym_ops_of_const(&g.init_expr)?,
                    ));
                }
            }
            Payload::ExportSection(r) => {
                for e in r {
                    let e = e.map_err(|e| e.to_string())?;
                    let k = match e.kind {
                        ExternalKind::Func => "func",
                        ExternalKind::Table => "table",
                        ExternalKind::Memory => "memory",
                        ExternalKind::Global => "global",
                        ExternalKind::Tag => "tag",
                    };
                    m.exports.push((e.name.into(), k.into(), e.index));
                }
            }
            Payload::StartSection { func, .. } => m.start = Some(func),
            Payload::ElementSection(r) => {
                for e in r {
                    let e = e.map_err(|e| e.to_string())?;
                    let (kind, table, offset) = match e.kind {
                        ElementKind::Passive => ("passive", None, vec![]),
                        ElementKind::Declared => ("declared", None, vec![]),
                        ElementKind::Active { table_index, offset_expr } => {
                            ("active", Some(table_index.unwrap_or(0)), sym_ops_of_const(&offset_expr)?)
                        }
                    };
                    let items = match e.items {
                        ElementItems::Functions(r) => {
                            let mut v = vec![];
                            for f in r {
                                v.push(f.map_err(|e| e.to_string())?);
                            }
                            RawElemItems::Funcs(v)
                        }
                        ElementItems::Expressions(ty, r) => {
                            let mut v = vec![];
                            for x in r {
                                v.push(sym_ops_of_const(&x.map_err(|e| e.to_string())?)?);
                            }
                            RawElemItems::Exprs(format!("{}", ty), v)
                        }
                    };
                    m.elems.push(RawElem { kind: kind.into(), table, offset, items });
                }
            }
            Payload::DataCountSection { count, .. } => m.data_count = Some(count),
            Payload::DataSection(r) => {
                for d in r {
                    let d = d.map_err(|e| e.to_string())?;
                    match d.kind {
                        DataKind::Passive => {
                            m.datas.push(RawData { active: false, mem: 0, offset: vec![], bytes: d.data.to_vec() })
                        }
                        DataKind::Active { memory_index, offset_expr } => m.datas.push(RawData {
                            active: true,
                            mem: memory_index,
                            offset: sym_ops_of_const(&offset_expr)?,
                            bytes: d.data.to_vec(),
                        }),
                    }
                }
            }
            Payload::CodeSectionEntry(body) => {
                let mut f = RawFunc { type_idx: *func_types.get(m.funcs.len()).unwrap_or(&u32::MAX), ..Default::default() };
                for l in body.get_locals_reader().map_err(|e| e.to_string())? {
                    let (n, t) = l.map_err(|e| e.to_string())?;
                    for _ in 0..n.min(100_000) {
                        f.locals.push(vt(t));
                    }
                }
                for op in body.get_operators_reader().map_err(|e| e.to_string())? {
                    f.ops.push(sym_op(&op.map_err(|e| e.to_string())?)?);
                }
                m.funcs.push(f);
            }
            Payload::CustomSection(c) => match c.as_known() {
                wasmparser::KnownCustom::Name(r) => {
                    m.names.present = true;
                    for sub in r {
                        match sub.map_err(|e| e.to_string())? {
                            wasmparser::Name::Module { name, .. } => m.names.module = Some(name.into()),
                            wasmparser::Name::Function(n) => m.names.funcs = name_map(n)?,
                            wasmparser::Name::Local(n) => m.names.locals = ind_map(n)?,
                            wasmparser::Name::Label(n) => m.names.labels = ind_map(n)?,
                            wasmparser::Name::Type(n) => m.names.types = name_map(n)?,
                            wasmparser::Name::Table(n) => m.names.tables = name_map(n)?,
                            wasmparser::Name::Memory(n) => m.names.memories = name_map(n)?,
                            wasmparser::Name::Global(n) => m.names.globals = name_map(n)?,
                            wasmparser::Name::Element(n) => m.names.elems = name_map(n)?,
                            wasmparser::Name::Data(n) => m.names.datas = name_map(n)?,
                            wasmparser::Name::Field(n) => m.names.fields = ind_map(n)?,
                            wasmparser::Name::Tag(n) => m.names.tags = name_map(n)?,
                            wasmparser::Name::Unknown { .. } => {}
                        }
                    }
                }
                _ => m.customs.push((c.name().to_string(), c.data().to_vec())),
            },
            _ => {}
        }
    }
    Ok(m)
}

// ------------------------------------------------------------------------------------
// identities

#[derive(Clone, Debug, Default)]
pub struct Idents {
    pub funcs: Vec<String>,
    pub globals: Vec<String>,
    pub mems: Vec<String>,
}

fn hex(b: &[u8]) -> String {
    let mut s = String::with_capacity(b.len() * 2);
    for x in b {
        let _ = write!(s, "{:02x}", x);
    }
    s
}

fn read_i32_const(op: &SymOp) -> Option<i64> {
    // i32.const = 0x41 + sleb128
    if op.bytes.first() != Some(&0x41) {
        return None;
    }
    let mut result: i64 = 0;
    let mut shift = 0;
    for (i, b) in op.bytes[1..].iter().enumerate() {
        result |= ((b & 0x7f) as i64) << shift;
        shift += 7;
        if b & 0x80 == 0 {
            if shift < 64 && (b & 0x40) != 0 {
                result |= -1i64 << shift;
            }
            let _ = i;
            return Some(result);
        }
    }
    None
}

pub fn sanitize(s: &str) -> String {
    s.chars().map(|c| if c.is_alphanumeric() || matches!(c, ':' | '.' | '_' | '=' | '#' | '-' | '<' | '>') { c } else { '_' }).collect()
}

/// identity string of a local global from its type string and symbolic initialiser
pub fn global_ident(ty: &str, init: &[SymOp]) -> String {
    let mut s = format!("G:{}:", ty);
    for op in init {
        s.push_str(&op.name);
        s.push_str(&hex(&op.bytes));
        for (k, _) in &op.refs {
            let _ = write!(s, "^{:?}", k);
        }
        s.push('.');
    }
    sanitize(&s)
}
pub fn mem_ident_of(desc: &str) -> String {
    sanitize(&format!("M:{}", desc.replace("MemoryType", "").replace("page_size_log2: None", "")))
}

/// Identity of function `i`: imports by (module,name); local functions by the fingerprint
/// `i32.const K; drop` at the start of the body, falling back to position.
pub fn idents(m: &RawModule) -> Idents {
    let mut id = Idents::default();
    let mut seen: BTreeMap<String, u32> = BTreeMap::new();
    let mut uniq = |s: String| -> String {
        let n = seen.entry(s.clone()).or_insert(0);
        *n += 1;
        if *n == 1 {
            s
        } else {
            format!("{}#dup{}", s, n)
        }
    };
    for i in &m.imports {
        match i.kind.as_str() {
            "func" => id.funcs.push(uniq(sanitize(&format!("I:{}.{}", i.module, i.name)))),
            "global" => id.globals.push(uniq(sanitize(&format!("IG:{}.{}", i.module, i.name)))),
            "memory" => id.mems.push(uniq(sanitize(&format!("IM:{}.{}", i.module, i.name)))),
            _ => {}
        }
    }
    for (pos, f) in m.funcs.iter().enumerate() {
        let fp = if f.ops.len() >= 2 && f.ops[1].bytes == [0x1a] { read_i32_const(&f.ops[0]) } else { None };
        match fp {
            Some(k) if (k as u32) >= 0x4000_0000 => id.funcs.push(uniq(format!("L:{}", k as u32 - 0x4000_0000))),
            _ => id.funcs.push(uniq(format!("Lpos:{}", pos))),
        }
    }
    for (ty, init) in m.globals.iter() {
        id.globals.push(uniq(global_ident(ty, init)));
    }
    for mt in &m.memories {
        id.mems.push(uniq(mem_ident_of(mt)));
    }
    id
}

// ------------------------------------------------------------------------------------
// symbolic form: flat map  site-key -> value  (indices replaced by identities)

pub type Flat = BTreeMap<String, String>;

fn sym_ops_str(ops: &[SymOp], id: &Idents) -> String {
    let mut s = String::new();
    for op in ops {
        s.push_str(&sym_op_str(op, id));
        s.push(' ');
    }
    s
}
pub fn resolve(k: RefKind, r: u32, id: &Idents) -> String {
    let v = match k {
        RefKind::Func => id.funcs.get(r as usize),
        RefKind::Global => id.globals.get(r as usize),
        RefKind::Memory => id.mems.get(r as usize),
    };
    v.cloned().unwrap_or_else(|| format!("<dangling {:?} {}>", k, r))
}
pub fn sym_op_str(op: &SymOp, id: &Idents) -> String {
    let mut s = format!("{}:{}", op.name, hex(&op.bytes));
    for (k, r) in &op.refs {
        let _ = write!(s, "@{}", resolve(*k, *r, id));
    }
    s
}

/// Which families of reference sites to include.
#[derive(Clone, Copy, Debug)]
pub struct SymOpts {
    pub positional_order: bool,
}

/// Flatten a module into site → value. Entities of the three re-indexable spaces are keyed
/// by identity, so the placement of entities does not matter; everything the wasm format
/// orders (types, exports, elements, data, tables, tags, customs) is keyed by position.
pub fn flatten(m: &RawModule, id: &Idents) -> Flat {
    flatten_opts(m, id, false)
}

/// `by_content`: function signatures are rendered as type *content* instead of type index
/// (used by the edit-history monitors, where added types may be de-duplicated).
pub fn flatten_opts(m: &RawModule, id: &Idents, by_content: bool) -> Flat {
    let mut f = Flat::new();
    for (i, t) in m.types.iter().enumerate() {
        f.insert(format!("type[{}]", i), t.clone());
    }
    f.insert(
        "typegroups".into(),
        m.type_groups.iter().map(|g| format!("{}{}", if g.starts_with("rec[") { "rec" } else { "" }, g.matches('|').count())).collect::<Vec<_>>().join(","),
    );
    // imports in order (order is part of the format)
    for (i, imp) in m.imports.iter().enumerate() {
        let desc = if imp.kind == "func" && by_content {
            // signature content instead of the type index
            let t: usize = imp.desc.trim_start_matches("type ").parse().unwrap_or(usize::MAX);
            m.types.get(t).cloned().unwrap_or_else(|| imp.desc.clone())
        } else {
            imp.desc.clone()
        };
        f.insert(format!("import[{}]", sanitize(&format!("{}.{}", imp.module, imp.name))), format!("{} {}", imp.kind, desc));
        f.insert(format!("importorder[{:04}]", i), sanitize(&format!("{}.{}", imp.module, imp.name)));
    }
    // index-space order of imported functions/globals/memories must agree with the import
    // section: recorded as a site of its own
    f.insert("space.func.imports".into(), id.funcs[..m.n_imp_funcs as usize].join(","));
    f.insert("space.global.imports".into(), id.globals[..m.n_imp_globals as usize].join(","));
    f.insert("space.memory.imports".into(), id.mems[..m.n_imp_mems as usize].join(","));
    for (pos, func) in m.funcs.iter().enumerate() {
        let me = &id.funcs[m.n_imp_funcs as usize + pos];
        f.insert(
            format!("func[{}].sig", me),
            if by_content {
                m.types.get(func.type_idx as usize).cloned().unwrap_or_else(|| format!("<type {} out of range>", func.type_idx))
            } else {
                format!("type {}", func.type_idx)
            },
        );
        f.insert(format!("func[{}].locals", me), func.locals.join(","));
        f.insert(format!("func[{}].nops", me), format!("{}", func.ops.len()));
        for (k, op) in func.ops.iter().enumerate() {
            f.insert(format!("func[{}].op[{:05}]", me, k), sym_op_str(op, id));
        }
    }
    for (i, (ty, init)) in m.tables.iter().enumerate() {
        f.insert(format!("table[{}].type", i), ty.clone());
        if let Some(init) = init {
            f.insert(format!("table[{}].init", i), sym_ops_str(init, id));
        }
    }
    for (pos, mt) in m.memories.iter().enumerate() {
        let me = &id.mems[m.n_imp_mems as usize + pos];
        f.insert(format!("memory[{}]", me), mt.clone());
    }
    for (pos, (ty, init)) in m.globals.iter().enumerate() {
        let me = &id.globals[m.n_imp_globals as usize + pos];
        f.insert(format!("global[{}].type", me), ty.clone());
        f.insert(format!("global[{}].init", me), sym_ops_str(init, id));
    }
    for (i, t) in m.tags.iter().enumerate() {
        f.insert(format!("tag[{}]", i), format!("{}", t));
    }
    for (i, (name, kind, idx)) in m.exports.iter().enumerate() {
        let target = match kind.as_str() {
            "func" => resolve(RefKind::Func, *idx, id),
            "global" => resolve(RefKind::Global, *idx, id),
            "memory" => resolve(RefKind::Memory, *idx, id),
            _ => format!("#{}", idx),
        };
        f.insert(format!("export[{}]", i), format!("{} {} {}", name, kind, target));
    }
    if let Some(s) = m.start {
        f.insert("start".into(), resolve(RefKind::Func, s, id));
    }
    for (i, e) in m.elems.iter().enumerate() {
        f.insert(format!("elem[{}].kind", i), format!("{} table={:?}", e.kind, e.table));
        if e.kind == "active" {
            f.insert(format!("elem[{}].offset", i), sym_ops_str(&e.offset, id));
        }
        match &e.items {
            RawElemItems::Funcs(v) => {
                f.insert(
                    format!("elem[{}].funcs", i),
                    v.iter().map(|x| resolve(RefKind::Func, *x, id)).collect::<Vec<_>>().join(","),
                );
            }
            RawElemItems::Exprs(ty, v) => {
                f.insert(
                    format!("elem[{}].exprs", i),
                    format!("{} {}", ty, v.iter().map(|x| sym_ops_str(x, id)).collect::<Vec<_>>().join("|")),
                );
            }
        }
    }
    f.insert("datacount".into(), format!("{:?}", m.data_count));
    for (i, d) in m.datas.iter().enumerate() {
        if d.active {
            f.insert(format!("data[{}].mem", i), resolve(RefKind::Memory, d.mem, id));
            f.insert(format!("data[{}].offset", i), sym_ops_str(&d.offset, id));
        } else {
            f.insert(format!("data[{}].mem", i), "passive".into());
        }
        f.insert(format!("data[{}].bytes", i), hex(&d.bytes));
    }
    for (i, (n, b)) in m.customs.iter().enumerate() {
        f.insert(format!("custom[{}]", i), format!("{:?} {}", n, hex(b)));
    }
    // names, attached to identities
    if let Some(n) = &m.names.module {
        f.insert("name.module".into(), n.clone());
    }
    for (i, n) in &m.names.funcs {
        f.insert(format!("name.func[{}]", resolve(RefKind::Func, *i, id)), n.clone());
    }
    for (i, ls) in &m.names.locals {
        for (l, n) in ls {
            f.insert(format!("name.local[{}][{}]", resolve(RefKind::Func, *i, id), l), n.clone());
        }
    }
    for (i, ls) in &m.names.labels {
        for (l, n) in ls {
            f.insert(format!("name.label[{}][{}]", resolve(RefKind::Func, *i, id), l), n.clone());
        }
    }
    for (i, n) in &m.names.globals {
        f.insert(format!("name.global[{}]", resolve(RefKind::Global, *i, id)), n.clone());
    }
    for (i, n) in &m.names.memories {
        f.insert(format!("name.memory[{}]", resolve(RefKind::Memory, *i, id)), n.clone());
    }
    for (what, map) in [
        ("type", &m.names.types),
        ("table", &m.names.tables),
        ("elem", &m.names.elems),
        ("data", &m.names.datas),
        ("tag", &m.names.tags),
    ] {
        for (i, n) in map {
            f.insert(format!("name.{}[{}]", what, i), n.clone());
        }
    }
    for (i, ls) in &m.names.fields {
        for (l, n) in ls {
            f.insert(format!("name.field[{}][{}]", i, l), n.clone());
        }
    }
    f
}

pub fn sym(wasm: &[u8]) -> Result<(RawModule, Idents, Flat), String> {
    let m = decode(wasm)?;
    let id = idents(&m);
    let f = flatten(&m, &id);
    Ok((m, id, f))
}

#[derive(Clone, Debug)]
pub struct Diff {
    pub site: String,
    pub expected: Option<String>,
    pub observed: Option<String>,
}

pub fn diff(expected: &Flat, observed: &Flat, limit: usize) -> Vec<Diff> {
    let mut out = vec![];
    for (k, v) in expected {
        match observed.get(k) {
            Some(o) if o == v => {}
            o => {
                out.push(Diff { site: k.clone(), expected: Some(v.clone()), observed: o.cloned() });
                if out.len() >= limit {
                    return out;
                }
            }
        }
    }
    for (k, v) in observed {
        if !expected.contains_key(k) {
            out.push(Diff { site: k.clone(), expected: None, observed: Some(v.clone()) });
            if out.len() >= limit {
                return out;
            }
        }
    }
    out
}

/// site class: key with bracket contents and digits removed, e.g. "func[].op[]" .
pub fn site_class(site: &str) -> String {
    let mut out = String::new();
    let mut depth = 0;
    for c in site.chars() {
        match c {
            '[' => {
                depth += 1;
                if depth == 1 {
                    out.push_str("[]");
                }
            }
            ']' => depth -= 1,
            _ if depth == 0 => out.push(c),
            _ => {}
        }
    }
    out
}

// ------------------------------------------------------------------------------------
// validation + text

pub fn features() -> WasmFeatures {
    let mut f = WasmFeatures::default();
    f.remove(WasmFeatures::EXTENDED_CONST);
    f
}

pub fn validate(wasm: &[u8]) -> Result<(), String> {
    let mut v = wasmparser::Validator::new_with_features(features());
    v.validate_all(wasm).map(|_| ()).map_err(|e| e.to_string())
}

/// Re-frame a module keeping only non-custom sections (custom sections, including the
/// name section, are removed) so the text of "all non-custom sections" can be compared.
pub fn strip_customs(wasm: &[u8]) -> Result<Vec<u8>, String> {
    let mut out = wasm[..8.min(wasm.len())].to_vec();
    for payload in Parser::new(0).parse_all(wasm) {
        let payload = payload.map_err(|e| e.to_string())?;
        if let Some((id, range)) = payload.as_section() {
            if id == 0 {
                continue;
            }
            out.push(id);
            let body = &wasm[range.start..range.end];
            let mut n = body.len() as u32;
            loop {
                let mut b = (n & 0x7f) as u8;
                n >>= 7;
                if n != 0 {
                    b |= 0x80;
                }
                out.push(b);
                if n == 0 {
                    break;
                }
            }
            out.extend_from_slice(body);
        }
    }
    Ok(out)
}

pub fn print_text(wasm: &[u8]) -> Result<String, String> {
    wasmprinter::print_bytes(wasm).map_err(|e| e.to_string())
}

pub fn op_mnemonic(op: &SymOp) -> &str {
    &op.name
}
