//! R — shadow model of the editing API + history driver.
//!
//! The model never predicts an index. It holds the symbolic form of the input (every
//! function / global / memory index replaced by the identity of the entity it designates)
//! and mirrors each API call the driver makes on wirm as a transformation of that form:
//! entities die, are born, or inherit the reference sites of another entity. After
//! `encode()` the output is decoded independently, identities are recovered from the
//! fingerprints in the bytes, and the two symbolic forms are compared site by site.

use crate::gen::{GenModule, TyInfo, VT};
use crate::rng::Rng;
use crate::runner::{catch, CaseOut, PanicInfo};
use crate::sym::{self, Flat, RefKind};
use serde_json::{json, Value as J};
use std::collections::{BTreeMap, BTreeSet};
use wirm::ir::function::FunctionBuilder;
use wirm::ir::id::{ExportsID, FunctionID, GlobalID, ImportsID, MemoryID, TypeID};
use wirm::ir::module::module_globals::{Global, GlobalKind, LocalGlobal};
use wirm::ir::types::{DataType, InitExpr, InitInstr, Location, Value};
use wirm::iterator::iterator_trait::IteratingInstrumenter;
use wirm::iterator::module_iterator::ModuleIterator;
use wirm::opcode::{Instrumenter, Opcode};
use wirm::{DataSegment, DataSegmentKind, Module};

pub const A_FUNC: u32 = 1;
pub const A_GLOBAL: u32 = 2;
pub const A_MEM: u32 = 4;
/// deletions may leave live references behind (C09)
pub const A_DANGLING: u32 = 8;
pub const A_REPLACE_IMPORT: u32 = 16;
pub const A_TO_IMPORT: u32 = 32;
pub const A_NAMES: u32 = 64;
pub const A_DELETE: u32 = 128;
pub const A_EXPORTS: u32 = 256;
pub const A_INJECT: u32 = 512;
pub const A_ADD: u32 = 1024;
pub const A_DATA: u32 = 2048;
/// rich builder bodies / every local-adding API / every initialiser and memory-type variant (C12, C14, C30)
pub const A_RICH: u32 = 4096;
pub const A_LOCALS: u32 = 8192;

pub fn vt_str(t: VT) -> &'static str {
    match t {
        VT::I32 => "i32",
        VT::I64 => "i64",
        VT::F32 => "f32",
        VT::F64 => "f64",
        VT::V128 => "v128",
        VT::FuncRef => "funcref",
        VT::ExternRef => "externref",
        VT::AnyRef => "anyref",
        VT::EqRef => "eqref",
        VT::I31Ref => "i31ref",
        VT::StructRef => "structref",
        VT::ArrayRef => "arrayref",
        VT::ExnRef => "exnref",
        VT::RefNull(_) => "<concrete>",
    }
}
pub fn vt_dt(t: VT) -> Option<DataType> {
    Some(match t {
        VT::I32 => DataType::I32,
        VT::I64 => DataType::I64,
        VT::F32 => DataType::F32,
        VT::F64 => DataType::F64,
        VT::V128 => DataType::V128,
        VT::FuncRef => DataType::FuncRefNull,
        VT::ExternRef => DataType::ExternRefNull,
        VT::AnyRef => DataType::AnyNull,
        VT::EqRef => DataType::EqNull,
        VT::I31Ref => DataType::I31Null,
        VT::StructRef => DataType::StructNull,
        VT::ArrayRef => DataType::ArrayNull,
        _ => return None,
    })
}
pub fn sig_str(p: &[VT], r: &[VT]) -> String {
    format!(
        "sub final=true super=None shared=false func({})->({})",
        p.iter().map(|v| vt_str(*v)).collect::<Vec<_>>().join(","),
        r.iter().map(|v| vt_str(*v)).collect::<Vec<_>>().join(",")
    )
}

#[derive(Clone, Debug)]
pub struct Ent {
    pub ident: String,
    pub alive: bool,
    pub local: bool,
    /// for functions: signature when the harness knows it in VT terms
    pub sig: Option<(Vec<VT>, Vec<VT>)>,
    pub type_id: Option<u32>,
    pub imports_id: Option<u32>,
    /// globals: type / mutability ; memories: mem64
    pub vt: Option<VT>,
    pub mutable: bool,
    pub mem64: bool,
    pub added: bool,
}

/// The shadow model.
pub struct Model {
    pub flat: Flat,
    pub bodies: BTreeMap<String, Vec<String>>,
    /// keys whose presence is not prescribed (either outcome accepted)
    pub optional: BTreeSet<String>,
    /// caller-visible id -> entity
    pub funcs: BTreeMap<u32, Ent>,
    pub globals: BTreeMap<u32, Ent>,
    pub mems: BTreeMap<u32, Ent>,
    pub n_exports: usize,
    pub n_datas: usize,
    pub must_fail: Vec<String>,
    pub log: Vec<String>,
    pub next_uid: u32,
    pub types: Vec<String>,
    pub used_idents: BTreeSet<String>,
    /// the history injected instructions of a proposal outside the validated feature set (global atomics of
    /// shared-everything-threads): references are still compared, the output is not validated
    pub novalidate: bool,
}

fn is_tok_delim(c: char) -> bool {
    matches!(c, '@' | ',' | ' ' | '|' | '\u{1}')
}
/// replace identity token `old` by `new` wherever it occurs as a whole token
fn replace_token(s: &str, old: &str, new: &str) -> String {
    if !s.contains(old) {
        return s.to_string();
    }
    let mut out = String::with_capacity(s.len());
    let mut cur = String::new();
    for c in s.chars() {
        if is_tok_delim(c) {
            out.push_str(if cur == old { new } else { &cur });
            cur.clear();
            out.push(c);
        } else {
            cur.push(c);
        }
    }
    out.push_str(if cur == old { new } else { &cur });
    out
}
fn has_token(s: &str, tok: &str) -> bool {
    s.contains(tok) && s.split(is_tok_delim).any(|t| t == tok)
}

impl Model {
    pub fn from_input(raw: &sym::RawModule, id: &sym::Idents, g: Option<&GenModule>) -> Model {
        let mut flat = sym::flatten_opts(raw, id, true);
        let mut bodies = BTreeMap::new();
        for (pos, f) in raw.funcs.iter().enumerate() {
            let me = id.funcs[raw.n_imp_funcs as usize + pos].clone();
            bodies.insert(me, f.ops.iter().map(|o| sym::sym_op_str(o, id)).collect::<Vec<_>>());
        }
        flat.retain(|k, _| !(k.starts_with("func[") && (k.contains("].op[") || k.ends_with("].nops"))));
        let mut funcs = BTreeMap::new();
        let mut imp_pos: Vec<u32> = vec![];
        for (i, imp) in raw.imports.iter().enumerate() {
            if imp.kind == "func" {
                imp_pos.push(i as u32);
            }
        }
        for (i, ident) in id.funcs.iter().enumerate() {
            let local = i >= raw.n_imp_funcs as usize;
            let (sig, ty) = match g {
                Some(g) if i < g.func_types.len() => {
                    let (p, r) = g.sig(i as u32);
                    (Some((p.to_vec(), r.to_vec())), Some(g.func_types[i]))
                }
                _ => (None, None),
            };
            funcs.insert(
                i as u32,
                Ent {
                    ident: ident.clone(),
                    alive: true,
                    local,
                    sig,
                    type_id: ty,
                    imports_id: if local { None } else { imp_pos.get(i).cloned() },
                    vt: None,
                    mutable: false,
                    mem64: false,
                    added: false,
                },
            );
        }
        let mut globals = BTreeMap::new();
        for (i, ident) in id.globals.iter().enumerate() {
            let gi = g.and_then(|g| g.globals.get(i));
            globals.insert(
                i as u32,
                Ent {
                    ident: ident.clone(),
                    alive: true,
                    local: i >= raw.n_imp_globals as usize,
                    sig: None,
                    type_id: None,
                    imports_id: None,
                    vt: gi.map(|x| x.ty),
                    mutable: gi.map(|x| x.mutable).unwrap_or(false),
                    mem64: false,
                    added: false,
                },
            );
        }
        let mut mems = BTreeMap::new();
        for (i, ident) in id.mems.iter().enumerate() {
            let mi = g.and_then(|g| g.mems.get(i));
            mems.insert(
                i as u32,
                Ent {
                    ident: ident.clone(),
                    alive: true,
                    local: i >= raw.n_imp_mems as usize,
                    sig: None,
                    type_id: None,
                    imports_id: None,
                    vt: None,
                    mutable: false,
                    mem64: mi.map(|x| x.mem64).unwrap_or(false),
                    added: false,
                },
            );
        }
        let mut used: BTreeSet<String> = BTreeSet::new();
        used.extend(id.funcs.iter().cloned());
        used.extend(id.globals.iter().cloned());
        used.extend(id.mems.iter().cloned());
        Model {
            flat,
            bodies,
            optional: BTreeSet::new(),
            funcs,
            globals,
            mems,
            n_exports: raw.exports.len(),
            n_datas: raw.datas.len(),
            must_fail: vec![],
            log: vec![],
            next_uid: g.map(|g| g.next_uid).unwrap_or(5000) + 100,
            types: raw.types.clone(),
            used_idents: used,
            novalidate: false,
        }
    }

    /// every site (key) whose value mentions `ident`
    pub fn uses(&self, ident: &str) -> Vec<String> {
        let mut out = vec![];
        for (k, v) in &self.flat {
            if k.starts_with("name.") || k.starts_with("space.") {
                continue;
            }
            if has_token(v, ident) {
                out.push(k.clone());
            }
        }
        for (f, b) in &self.bodies {
            for (i, op) in b.iter().enumerate() {
                if has_token(op, ident) {
                    out.push(format!("func[{}].op[{:05}]", f, i));
                }
            }
        }
        out
    }

    pub fn redirect(&mut self, old: &str, new: &str) {
        for (k, v) in self.flat.iter_mut() {
            if k.starts_with("space.") {
                continue;
            }
            if v.contains(old) {
                *v = replace_token(v, old, new);
            }
        }
        for b in self.bodies.values_mut() {
            for op in b.iter_mut() {
                if op.contains(old) {
                    *op = replace_token(op, old, new);
                }
            }
        }
    }

    fn remove_keys_with_prefix(&mut self, prefix: &str) {
        self.flat.retain(|k, _| !k.starts_with(prefix));
    }

    /// names attached to an entity that ceases to exist / changes nature: either outcome accepted
    fn names_optional(&mut self, kind: &str, ident: &str) {
        let p1 = format!("name.{}[{}]", kind, ident);
        let keys: Vec<String> = self.flat.keys().filter(|k| k.starts_with(&p1)).cloned().collect();
        for k in keys {
            self.flat.remove(&k);
            self.optional.insert(k);
        }
        if kind == "func" {
            for pre in ["name.local[", "name.label["] {
                let p = format!("{}{}]", pre, ident);
                let keys: Vec<String> = self.flat.keys().filter(|k| k.starts_with(&p)).cloned().collect();
                for k in keys {
                    self.flat.remove(&k);
                    self.optional.insert(k);
                }
            }
        }
    }

    pub fn kill_func(&mut self, id: u32) {
        let e = self.funcs.get_mut(&id).unwrap();
        e.alive = false;
        let ident = e.ident.clone();
        let local = e.local;
        if local {
            self.remove_keys_with_prefix(&format!("func[{}].", ident));
            self.bodies.remove(&ident);
        } else {
            let key = format!("import[{}]", &ident[2..]);
            self.flat.remove(&key);
        }
        // names of a deleted entity must be gone
        self.remove_keys_with_prefix(&format!("name.func[{}]", ident));
        self.remove_keys_with_prefix(&format!("name.local[{}]", ident));
        self.remove_keys_with_prefix(&format!("name.label[{}]", ident));
    }
    pub fn kill_global(&mut self, id: u32) {
        let e = self.globals.get_mut(&id).unwrap();
        e.alive = false;
        let ident = e.ident.clone();
        if e.local {
            self.remove_keys_with_prefix(&format!("global[{}].", ident));
        } else {
            self.flat.remove(&format!("import[{}]", &ident[3..]));
        }
        self.remove_keys_with_prefix(&format!("name.global[{}]", ident));
    }
    pub fn kill_mem(&mut self, id: u32) {
        let e = self.mems.get_mut(&id).unwrap();
        e.alive = false;
        let ident = e.ident.clone();
        if e.local {
            self.flat.remove(&format!("memory[{}]", ident));
        } else {
            self.flat.remove(&format!("import[{}]", &ident[3..]));
        }
        self.remove_keys_with_prefix(&format!("name.memory[{}]", ident));
    }

    /// live reference sites that designate a deleted entity (computed once the history is complete:
    /// later operations may remove a site again)
    pub fn compute_must_fail(&mut self) {
        self.must_fail.clear();
        let mut dead: Vec<(String, &'static str)> = vec![];
        for (m, what) in [(&self.funcs, "function"), (&self.globals, "global"), (&self.mems, "memory")] {
            for e in m.values() {
                if !e.alive {
                    dead.push((e.ident.clone(), what));
                }
            }
        }
        for (ident, what) in dead {
            for site in self.uses(&ident) {
                self.must_fail.push(format!("{} -> deleted {} {}", site, what, ident));
            }
        }
    }

    /// final expected flat form
    pub fn expected(&self) -> Flat {
        let mut f = self.flat.clone();
        f.retain(|k, _| !k.starts_with('~'));
        for (id, b) in &self.bodies {
            f.insert(format!("func[{}].nops", id), format!("{}", b.len()));
            for (k, op) in b.iter().enumerate() {
                f.insert(format!("func[{}].op[{:05}]", id, k), op.clone());
            }
        }
        f
    }

    pub fn ident_of(&self, k: RefKind, id: u32) -> String {
        let m = match k {
            RefKind::Func => &self.funcs,
            RefKind::Global => &self.globals,
            RefKind::Memory => &self.mems,
        };
        m.get(&id).map(|e| e.ident.clone()).unwrap_or_else(|| format!("<unknown {:?} {}>", k, id))
    }

    /// symbolic string of an operator the driver injects, indices resolved through the
    /// caller-visible ids (handles)
    pub fn sym_injected(&self, op: &wasmparser::Operator) -> String {
        let s = sym::sym_op(op).expect("sym_op");
        let mut out = format!("{}:{}", s.name, s.bytes.iter().map(|b| format!("{:02x}", b)).collect::<String>());
        for (k, r) in &s.refs {
            out.push('@');
            out.push_str(&self.ident_of(*k, *r));
        }
        out
    }
}

// ------------------------------------------------------------------------------------
// comparison

#[derive(Clone, Debug)]
pub struct SiteDiff {
    pub site: String,
    pub class: String,
    pub mode: String,
    pub expected: Option<String>,
    pub observed: Option<String>,
}

/// observed flat with identities + the same flat with raw indices ("@#<n>") to detect stale ids
pub fn observed_forms(raw: &sym::RawModule, id: &sym::Idents) -> (Flat, Flat) {
    let f = sym::flatten_opts(raw, id, true);
    let rawid = sym::Idents {
        funcs: (0..id.funcs.len()).map(|i| format!("#{}", i)).collect(),
        globals: (0..id.globals.len()).map(|i| format!("#{}", i)).collect(),
        mems: (0..id.mems.len()).map(|i| format!("#{}", i)).collect(),
    };
    // keys must be the same: build the raw-valued map by flattening with raw identities and
    // re-keying through position
    let fr = sym::flatten_opts(raw, &rawid, true);
    // map raw keys -> identity keys
    let mut out = Flat::new();
    let rekey = |k: &str| -> String {
        // replace [#n] in the leading entity bracket by the identity
        if let Some(open) = k.find("[#") {
            if let Some(close) = k[open..].find(']') {
                let n: usize = k[open + 2..open + close].parse().unwrap_or(usize::MAX);
                let kind = &k[..open];
                let ident = if kind.ends_with("func") || kind.ends_with("local") || kind.ends_with("label") {
                    id.funcs.get(n)
                } else if kind.ends_with("global") {
                    id.globals.get(n)
                } else if kind.ends_with("memory") {
                    id.mems.get(n)
                } else {
                    None
                };
                if let Some(ident) = ident {
                    return format!("{}[{}{}", kind, ident, &k[open + close..]);
                }
            }
        }
        k.to_string()
    };
    for (k, v) in fr {
        out.insert(rekey(&k), v);
    }
    (f, out)
}

pub fn compare(model: &Model, obs: &Flat, obs_raw: &Flat, want_names: bool, only_names: bool) -> Vec<SiteDiff> {
    let exp = model.expected();
    let relevant = |k: &str| -> bool {
        if k.starts_with("type[") || k == "typegroups" || k.starts_with("importorder[") || k.starts_with("space.") || k == "datacount" {
            return false;
        }
        let is_name = k.starts_with("name.");
        if only_names {
            return is_name;
        }
        if is_name {
            return want_names;
        }
        true
    };
    let mut out = vec![];
    for (k, v) in &exp {
        if !relevant(k) {
            continue;
        }
        match obs.get(k) {
            Some(o) if o == v => {}
            Some(o) => {
                // find first differing token
                let te: Vec<&str> = v.split('@').collect();
                let to: Vec<&str> = o.split('@').collect();
                let tr: Vec<&str> = obs_raw.get(k).map(|r| r.split('@').collect()).unwrap_or_default();
                let mut mode = "content".to_string();
                for i in 0..te.len().max(to.len()) {
                    let a = te.get(i).map(|s| s.split(' ').next().unwrap_or(""));
                    let b = to.get(i).map(|s| s.split(' ').next().unwrap_or(""));
                    if a != b {
                        if i == 0 {
                            // leading part (op bytes or plain value)
                            mode = classify_plain(model, v, o, obs_raw.get(k));
                        } else if b.map(|x| x.starts_with("<dangling")).unwrap_or(false) {
                            mode = "dangling-index".into();
                        } else {
                            // raw index emitted at this token
                            let raw_idx: Option<u32> =
                                tr.get(i).and_then(|s| s.split(' ').next()).and_then(|s| s.trim_start_matches('#').parse().ok());
                            mode = stale_or_wrong(model, a.unwrap_or(""), raw_idx);
                        }
                        break;
                    }
                }
                out.push(SiteDiff { site: k.clone(), class: site_class_of(k, v), mode, expected: Some(v.clone()), observed: Some(o.clone()) });
            }
            None => out.push(SiteDiff {
                site: k.clone(),
                class: site_class_of(k, v),
                mode: "site-missing".into(),
                expected: Some(v.clone()),
                observed: None,
            }),
        }
    }
    for (k, v) in obs {
        if !relevant(k) || exp.contains_key(k) || model.optional.contains(k) {
            continue;
        }
        out.push(SiteDiff { site: k.clone(), class: site_class_of(k, v), mode: "site-extra".into(), expected: None, observed: Some(v.clone()) });
    }
    out
}

fn classify_plain(model: &Model, exp: &str, obs: &str, raw: Option<&String>) -> String {
    // values like "name kind IDENT" (exports), "IDENT" (start), "a,b,c" (elem funcs), data mem
    let te: Vec<&str> = exp.split(|c| c == ' ' || c == ',').collect();
    let to: Vec<&str> = obs.split(|c| c == ' ' || c == ',').collect();
    let tr: Vec<&str> = raw.map(|r| r.split(|c| c == ' ' || c == ',').collect()).unwrap_or_default();
    for i in 0..te.len().min(to.len()) {
        if te[i] != to[i] {
            if to[i].starts_with("<dangling") {
                return "dangling-index".into();
            }
            let raw_idx: Option<u32> = tr.get(i).and_then(|s| s.trim_start_matches('#').parse().ok());
            if raw_idx.is_some() && tr.get(i).map(|s| s.starts_with('#')).unwrap_or(false) {
                return stale_or_wrong(model, te[i], raw_idx);
            }
            return "content".into();
        }
    }
    "content".into()
}

fn stale_or_wrong(model: &Model, expected_ident: &str, raw_idx: Option<u32>) -> String {
    if let Some(r) = raw_idx {
        for m in [&model.funcs, &model.globals, &model.mems] {
            if let Some(e) = m.get(&r) {
                if e.ident == expected_ident {
                    return "stale-index".into();
                }
            }
        }
    }
    "wrong-entity".into()
}

pub fn site_class_of(key: &str, value: &str) -> String {
    let c = sym::site_class(key);
    if c == "func[].op[]" {
        // add the opcode name
        let name = value.split(':').next().unwrap_or("");
        return format!("code:{}", name);
    }
    if c == "export[]" {
        let kind = value.split(' ').nth(1).unwrap_or("");
        return format!("export:{}", kind);
    }
    c
}

// ------------------------------------------------------------------------------------
// history driver

pub struct HistoryCfg {
    pub alphabet: u32,
    pub max_len: usize,
    /// bit k set = encoding number k goes through `emit_wasm` (to a scratch file) instead of `encode` (C05)
    pub emit_mask: u8,
}

pub struct Outcome {
    pub model: Model,
    pub encoded: Result<Vec<u8>, PanicInfo>,
    pub call_panic: Option<(String, PanicInfo)>,
    pub ops_done: usize,
    pub second: Option<Result<Vec<u8>, PanicInfo>>,
    pub third: Option<Result<Vec<u8>, PanicInfo>>,
}

struct Driver<'m, 'a> {
    m: &'m mut Module<'a>,
    model: Model,
    g: &'m GenModule,
    alphabet: u32,
    import_uid: u32,
    void_type: u32,
    alt_counter: u32,
}

fn numeric(t: VT) -> bool {
    matches!(t, VT::I32 | VT::I64 | VT::F32 | VT::F64)
}

fn push_const<'a, T: Opcode<'a>>(b: &mut T, t: VT, rng: &mut Rng) -> bool {
    match t {
        VT::I32 => {
            b.i32_const(rng.next_u32() as i32);
        }
        VT::I64 => {
            b.i64_const(rng.next_u64() as i64);
        }
        VT::F32 => {
            b.f32_const(f32::from_bits(rng.next_u32() & 0x7f7f_ffff));
        }
        VT::F64 => {
            b.f64_const(f64::from_bits(rng.next_u64() & 0x7fef_ffff_ffff_ffff));
        }
        _ => return false,
    }
    true
}
fn const_op(t: VT, rng: &mut Rng) -> wasmparser::Operator<'static> {
    use wasmparser::Operator as O;
    match t {
        VT::I32 => O::I32Const { value: rng.next_u32() as i32 },
        VT::I64 => O::I64Const { value: rng.next_u64() as i64 },
        VT::F32 => O::F32Const { value: wasmparser::Ieee32::from(f32::from_bits(rng.next_u32() & 0x7f7f_ffff)) },
        VT::F64 => O::F64Const { value: wasmparser::Ieee64::from(f64::from_bits(rng.next_u64() & 0x7fef_ffff_ffff_ffff)) },
        _ => O::Nop,
    }
}

impl<'m, 'a> Driver<'m, 'a> {
    fn live_funcs(&self, pred: impl Fn(&Ent) -> bool) -> Vec<u32> {
        self.model.funcs.iter().filter(|(_, e)| e.alive && pred(e)).map(|(k, _)| *k).collect()
    }
    fn callable(&self) -> Vec<u32> {
        self.live_funcs(|e| e.sig.as_ref().map(|(p, _)| p.iter().all(|t| numeric(*t))).unwrap_or(false))
    }

    /// ops (as wasmparser operators, with caller-visible ids) that call `target` stack-neutrally
    fn call_seq(&self, target: u32, rng: &mut Rng) -> Vec<wasmparser::Operator<'static>> {
        use wasmparser::Operator as O;
        let (p, r) = self.model.funcs[&target].sig.clone().unwrap();
        let mut v = vec![];
        for t in &p {
            v.push(const_op(*t, rng));
        }
        v.push(O::Call { function_index: target });
        for _ in &r {
            v.push(O::Drop);
        }
        v
    }
    fn global_seq(&self, gid: u32, rng: &mut Rng) -> Vec<wasmparser::Operator<'static>> {
        use wasmparser::Operator as O;
        let e = &self.model.globals[&gid];
        // 1 in 8 on integer globals: one of the nine global.atomic.* instructions (shared-everything-threads). They carry a global
        // index like global.get / global.set and must be re-indexed with them; the stack shape is kept neutral.
        if matches!(e.vt, Some(VT::I32) | Some(VT::I64)) && rng.chance(1, 8) {
            let t = e.vt.unwrap();
            let ordering = if rng.bool() { wasmparser::Ordering::SeqCst } else { wasmparser::Ordering::AcqRel };
            let g = gid;
            return match rng.below(9) {
                0 => vec![O::GlobalAtomicGet { ordering, global_index: g }, O::Drop],
                1 => vec![const_op(t, rng), O::GlobalAtomicSet { ordering, global_index: g }],
                2 => vec![const_op(t, rng), O::GlobalAtomicRmwAdd { ordering, global_index: g }, O::Drop],
                3 => vec![const_op(t, rng), O::GlobalAtomicRmwSub { ordering, global_index: g }, O::Drop],
                4 => vec![const_op(t, rng), O::GlobalAtomicRmwAnd { ordering, global_index: g }, O::Drop],
                5 => vec![const_op(t, rng), O::GlobalAtomicRmwOr { ordering, global_index: g }, O::Drop],
                6 => vec![const_op(t, rng), O::GlobalAtomicRmwXor { ordering, global_index: g }, O::Drop],
                7 => vec![const_op(t, rng), O::GlobalAtomicRmwXchg { ordering, global_index: g }, O::Drop],
                _ => vec![const_op(t, rng), const_op(t, rng), O::GlobalAtomicRmwCmpxchg { ordering, global_index: g }, O::Drop],
            };
        }
        if e.mutable && e.vt.map(numeric).unwrap_or(false) && rng.bool() {
            vec![const_op(e.vt.unwrap(), rng), O::GlobalSet { global_index: gid }]
        } else {
            vec![O::GlobalGet { global_index: gid }, O::Drop]
        }
    }
    fn mem_seq(&self, mid: u32, rng: &mut Rng) -> Vec<wasmparser::Operator<'static>> {
        use wasmparser::Operator as O;
        let e = &self.model.mems[&mid];
        let addr = if e.mem64 { O::I64Const { value: 8 } } else { O::I32Const { value: 8 } };
        let ma = |align: u8| wasmparser::MemArg { align, max_align: align, offset: 4, memory: mid };
        match rng.below(6) {
            0 => vec![addr, O::I32Load { memarg: ma(2) }, O::Drop],
            1 => vec![addr, O::I64Const { value: 7 }, O::I64Store { memarg: ma(3) }],
            2 => vec![addr, O::I32Load8U { memarg: ma(0) }, O::Drop],
            3 => vec![O::MemorySize { mem: mid }, O::Drop],
            4 => vec![addr, O::F64Load { memarg: ma(3) }, O::Drop],
            _ => vec![addr, O::I32Const { value: 1 }, O::I32Store16 { memarg: ma(1) }],
        }
    }

    fn inject_ops(&mut self, into: u32, at: usize, ops: Vec<wasmparser::Operator<'static>>, after: bool) -> Result<(), PanicInfo> {
        let ident = self.model.funcs[&into].ident.clone();
        let syms: Vec<String> = ops.iter().map(|o| self.model.sym_injected(o)).collect();
        // 1 in 5 of the "before" injections is made as an ALTERNATE that ends with the instruction it replaces (same code, other list);
        // not on structural keywords, not on the final end, and only once per site
        let body = &self.model.bodies[&ident];
        let name = body[at].split(':').next().unwrap_or("").to_string();
        let alt_key = format!("~inj[{}][{:05}][alt]", ident, at);
        let as_alt = !after
            && at + 1 < body.len()
            && !matches!(name.as_str(), "Block" | "Loop" | "If" | "Else" | "End" | "TryTable" | "Try")
            && !self.model.flat.contains_key(&alt_key)
            && self.alt_toggle();
        let m = &mut *self.m;
        catch(|| {
            let orig = if as_alt { Some(m.functions.get(FunctionID(into)).unwrap_local().body.instructions[at].op.clone()) } else { None };
            let mut fm = m.functions.get_fn_modifier(FunctionID(into)).expect("modifier of a live local function");
            let loc = Location::Module { func_idx: FunctionID(into), instr_idx: at };
            if as_alt {
                fm.alternate_at(loc);
            } else if after {
                fm.after_at(loc);
            } else {
                fm.before_at(loc);
            }
            for o in ops {
                use wirm::opcode::Inject;
                fm.inject(o);
            }
            if let Some(o) = orig {
                use wirm::opcode::Inject;
                fm.inject(o);
            }
        })?;
        if as_alt {
            // model: the instruction is replaced by the injected code followed by itself
            let e = self.model.flat.entry(alt_key).or_default();
            for s in syms {
                if !e.is_empty() {
                    e.push('\u{1}');
                }
                e.push_str(&s);
            }
            self.model.log.push("  (as alternate ending with the replaced instruction)".to_string());
            return Ok(());
        }
        let body = self.model.bodies.get_mut(&ident).unwrap();
        let pos = if after { at + 1 } else { at };
        // several injections at one site: before-code accumulates in order, directly in front of the instruction;
        // the model keeps an insertion map instead of shifting indices, see `pending`
        let _ = pos;
        self.pending_insert(ident, at, after, syms);
        Ok(())
    }

    /// every fifth eligible injection becomes an alternate (a counter, so that recorded choice tapes stay valid)
    fn alt_toggle(&mut self) -> bool {
        self.alt_counter += 1;
        self.alt_counter % 3 == 0
    }

    fn pending_insert(&mut self, ident: String, at: usize, after: bool, syms: Vec<String>) {
        // store as marker entries in flat: applied in `finish_bodies`
        let key = format!("~inj[{}][{:05}][{}]", ident, at, if after { "after" } else { "before" });
        let e = self.model.flat.entry(key).or_default();
        for s in syms {
            if !e.is_empty() {
                e.push('\u{1}');
            }
            e.push_str(&s);
        }
    }
}

/// apply the recorded injections (original instruction indices) to the bodies
pub fn finish_bodies(model: &mut Model) {
    let keys: Vec<String> = model.flat.keys().filter(|k| k.starts_with("~inj[")).cloned().collect();
    let mut per_func: BTreeMap<String, BTreeMap<(usize, bool), Vec<String>>> = BTreeMap::new();
    let mut alts: BTreeMap<String, BTreeMap<usize, Vec<String>>> = BTreeMap::new();
    for k in keys {
        let v = model.flat.remove(&k).unwrap();
        // ~inj[ident][idx][mode]
        let inner = &k[5..];
        let close = inner.find("][").unwrap();
        let ident = inner[..close].to_string();
        let rest = &inner[close + 2..];
        let idx: usize = rest[..5].parse().unwrap();
        let after = rest.contains("after");
        if rest.contains("[alt]") {
            alts.entry(ident).or_default().insert(idx, v.split('\u{1}').map(|s| s.to_string()).collect());
            continue;
        }
        per_func.entry(ident).or_default().insert((idx, after), v.split('\u{1}').map(|s| s.to_string()).collect());
    }
    for ident in alts.keys() {
        per_func.entry(ident.clone()).or_default();
    }
    for (ident, ins) in per_func {
        if let Some(body) = model.bodies.get(&ident).cloned() {
            let mut nb = vec![];
            let last = body.len().saturating_sub(1);
            for (i, op) in body.iter().enumerate() {
                if let Some(b) = ins.get(&(i, false)) {
                    nb.extend(b.iter().cloned());
                }
                if let Some(a) = alts.get(&ident).and_then(|m| m.get(&i)) {
                    nb.extend(a.iter().cloned());
                }
                nb.push(op.clone());
                if i != last {
                    if let Some(a) = ins.get(&(i, true)) {
                        nb.extend(a.iter().cloned());
                    }
                }
            }
            model.bodies.insert(ident, nb);
        }
    }
}

#[derive(Clone, Debug)]
pub struct OpRec {
    pub text: String,
}

/// Runs a random (or tape-driven) legal history of edits on `g` and returns the model + output.
pub fn run_history(g: &GenModule, rng: &mut Rng, cfg: &HistoryCfg, encodes: usize) -> Result<Outcome, String> {
    run_history_with_plan(g, rng, cfg, encodes, &[])
}

/// Same, followed by an injection plan (special modes allowed) on the module before it is encoded (C04 / C05 scenarios).
pub fn run_history_with_plan(g: &GenModule, rng: &mut Rng, cfg: &HistoryCfg, encodes: usize, plan: &[crate::props::lower::Inj]) -> Result<Outcome, String> {
    let raw_in = sym::decode(&g.bytes)?;
    let id_in = sym::idents(&raw_in);
    let model = Model::from_input(&raw_in, &id_in, Some(g));
    let bytes = g.bytes.clone();
    let mut module = match catch(|| Module::parse(&bytes, true)) {
        Ok(Ok(m)) => m,
        Ok(Err(e)) => return Err(format!("parse error on valid base: {}", e)),
        Err(p) => return Err(format!("parse panic on valid base: {}", p.sig())),
    };
    let void_type = g.types.iter().position(|t| matches!(t, TyInfo::Func(p, r) if p.is_empty() && r.is_empty())).unwrap_or(0) as u32;
    let mut d = Driver { m: &mut module, model, g, alphabet: cfg.alphabet, import_uid: 0, void_type, alt_counter: 0 };
    let n = rng.range(1, cfg.max_len.max(1));
    let mut call_panic = None;
    let mut done = 0;
    for _ in 0..n {
        match d.step(rng) {
            Ok(true) => done += 1,
            Ok(false) => {}
            Err((what, p)) => {
                call_panic = Some((what, p));
                break;
            }
        }
    }
    let mut model = d.model;
    model.compute_must_fail();
    finish_bodies(&mut model);
    if call_panic.is_none() {
        for inj in plan {
            if let Err(p) = crate::props::lower::apply_injection(&mut module, inj) {
                call_panic = Some((format!("{:?}", inj), p));
                break;
            }
        }
    }
    if call_panic.is_some() {
        return Ok(Outcome { model, encoded: Err(PanicInfo::default()), call_panic, ops_done: done, second: None, third: None });
    }
    let emit_mask = cfg.emit_mask;
    let mut enc = |k: u8, module: &mut Module| {
        if emit_mask & (1 << k) != 0 {
            let dir = format!("{}/out/run", std::env::var("VERIF_DIR").unwrap_or_else(|_| "/verif".into()));
            let _ = std::fs::create_dir_all(&dir);
            let path = format!("{}/emit-h-{}.wasm", dir, std::process::id());
            // the file is NOT removed between emissions: emit_wasm must replace an older (possibly longer) file completely
            catch(|| module.emit_wasm(&path).map(|_| std::fs::read(&path).unwrap_or_default()).unwrap_or_default())
        } else {
            catch(|| module.encode())
        }
    };
    let encoded = enc(0, &mut module);
    let mut second = None;
    let mut third = None;
    if encodes >= 2 && encoded.is_ok() {
        second = Some(enc(1, &mut module));
        if encodes >= 3 && second.as_ref().map(|r| r.is_ok()).unwrap_or(false) {
            third = Some(enc(2, &mut module));
        }
    }
    Ok(Outcome { model, encoded, call_panic: None, ops_done: done, second, third })
}

impl<'m, 'a> Driver<'m, 'a> {
    fn fresh_import_name(&mut self) -> String {
        self.import_uid += 1;
        format!("added{}", self.import_uid)
    }

    /// one random legal operation; Ok(false) = nothing applicable was chosen
    fn step(&mut self, rng: &mut Rng) -> Result<bool, (String, PanicInfo)> {
        let a = self.alphabet;
        let mut kinds: Vec<u32> = vec![];
        if a & A_FUNC != 0 {
            if a & A_ADD != 0 {
                kinds.extend([0, 1]);
            }
            if a & A_DELETE != 0 {
                kinds.push(2);
            }
            if a & A_TO_IMPORT != 0 {
                kinds.push(3);
            }
            if a & A_REPLACE_IMPORT != 0 {
                kinds.push(4);
            }
            if a & A_INJECT != 0 {
                kinds.push(5);
            }
            if a & A_EXPORTS != 0 {
                kinds.extend([6, 7]);
            }
            if a & A_NAMES != 0 {
                kinds.push(8);
            }
            if a & A_RICH != 0 {
                kinds.extend([30, 30]);
            }
            if a & A_LOCALS != 0 {
                kinds.extend([31, 31, 31]);
            }
        }
        if a & A_GLOBAL != 0 {
            if a & A_ADD != 0 {
                kinds.extend([10, 11, 12]);
            }
            if a & A_DELETE != 0 {
                kinds.push(13);
            }
            kinds.push(14);
            if a & A_INJECT != 0 {
                kinds.push(15);
            }
        }
        if a & A_MEM != 0 {
            if a & A_ADD != 0 {
                kinds.extend([20, 21]);
            }
            if a & A_DELETE != 0 {
                kinds.push(22);
            }
            if a & A_INJECT != 0 {
                kinds.push(23);
            }
            if a & A_EXPORTS != 0 {
                kinds.push(24);
            }
            if a & A_DATA != 0 {
                kinds.push(25);
            }
        }
        if kinds.is_empty() {
            return Ok(false);
        }
        let k = *rng.pick(&kinds);
        match k {
            0 => self.op_add_local_fn(rng),
            1 => self.op_add_import_fn(rng),
            2 => self.op_delete_fn(rng),
            3 => self.op_to_import(rng),
            4 => self.op_replace_import(rng),
            5 => self.op_inject_call(rng),
            6 => self.op_add_export_fn(rng),
            7 => self.op_delete_export(rng),
            8 => self.op_set_fn_name(rng),
            30 => self.op_build_rich_fn(rng),
            31 => self.op_add_locals_existing(rng),
            10 | 12 => self.op_add_global(rng, k == 12),
            11 => self.op_add_imported_global(rng),
            13 => self.op_delete_global(rng),
            14 => self.op_mod_global_init(rng),
            15 => self.op_inject_global(rng),
            20 => self.op_add_local_mem(rng),
            21 => self.op_add_import_mem(rng),
            22 => self.op_delete_mem(rng),
            23 => self.op_inject_mem(rng),
            24 => self.op_add_export_mem(rng),
            _ => self.op_add_data(rng),
        }
    }

    fn err(what: &str, r: Result<(), PanicInfo>) -> Result<bool, (String, PanicInfo)> {
        match r {
            Ok(()) => Ok(true),
            Err(p) => Err((what.to_string(), p)),
        }
    }

    fn op_add_local_fn(&mut self, rng: &mut Rng) -> Result<bool, (String, PanicInfo)> {
        let tys = [VT::I32, VT::I64, VT::F32, VT::F64];
        let np = rng.below(3);
        let nr = rng.below(2);
        let p: Vec<VT> = (0..np).map(|_| *rng.pick(&tys)).collect();
        let r: Vec<VT> = (0..nr).map(|_| *rng.pick(&tys)).collect();
        let uid = self.model.next_uid;
        self.model.next_uid += 1;
        let ident = format!("L:{}", uid);
        // body: fingerprint, 0..2 calls to live callable functions, results
        let callable = self.callable();
        let ncalls = if callable.is_empty() { 0 } else { rng.below(3) };
        let mut ops: Vec<wasmparser::Operator<'static>> = vec![
            wasmparser::Operator::I32Const { value: (crate::gen::FP_BASE + uid) as i32 },
            wasmparser::Operator::Drop,
        ];
        for _ in 0..ncalls {
            let t = *rng.pick(&callable);
            ops.extend(self.call_seq(t, rng));
        }
        if self.alphabet & A_GLOBAL != 0 {
            let gl: Vec<u32> = self.model.globals.iter().filter(|(_, e)| e.alive).map(|(k, _)| *k).collect();
            if !gl.is_empty() && rng.bool() {
                let gi = *rng.pick(&gl);
                let gs = self.global_seq(gi, rng);
                if gs.iter().any(|o| sym::op_name(o).starts_with("GlobalAtomic")) {
                    self.model.novalidate = true;
                }
                ops.extend(gs);
            }
        }
        if self.alphabet & A_MEM != 0 {
            let ml: Vec<u32> = self.model.mems.iter().filter(|(_, e)| e.alive).map(|(k, _)| *k).collect();
            if !ml.is_empty() && rng.bool() {
                let mi = *rng.pick(&ml);
                ops.extend(self.mem_seq(mi, rng));
            }
        }
        // 1 in 4: the body ends with a tail call to a live function whose results are the new function's results
        let tail: Vec<u32> = callable.iter().cloned().filter(|t| self.model.funcs[t].sig.as_ref().map(|(_, tr)| *tr == r).unwrap_or(false)).collect();
        if !tail.is_empty() && rng.chance(1, 4) {
            let t = *rng.pick(&tail);
            let (tp, _) = self.model.funcs[&t].sig.clone().unwrap();
            for pt in &tp {
                ops.push(const_op(*pt, rng));
            }
            ops.push(wasmparser::Operator::ReturnCall { function_index: t });
        } else {
            for t in &r {
                ops.push(const_op(*t, rng));
            }
        }
        let name = if rng.bool() { Some(format!("built{}", uid)) } else { None };
        let mut syms: Vec<String> = ops.iter().map(|o| self.model.sym_injected(o)).collect();
        syms.push("End:0b".to_string());
        let pd: Vec<DataType> = p.iter().map(|t| vt_dt(*t).unwrap()).collect();
        let rd: Vec<DataType> = r.iter().map(|t| vt_dt(*t).unwrap()).collect();
        let m = &mut *self.m;
        let name2 = name.clone();
        let res = catch(move || {
            let mut fb = FunctionBuilder::new(&pd, &rd);
            for o in ops {
                use wirm::opcode::Inject;
                fb.inject(o);
            }
            if let Some(n) = name2 {
                fb.set_name(n);
            }
            let fid = fb.finish_module(m);
            let ty = m.functions.get_type_id(fid);
            (*fid, *ty)
        });
        let (fid, ty) = match res {
            Ok(x) => x,
            Err(pn) => return Err(("FunctionBuilder::finish_module".into(), pn)),
        };
        self.model.log.push(format!("add_local_fn {} sig {:?}->{:?} -> FunctionID({})", ident, p, r, fid));
        self.model.flat.insert(format!("func[{}].sig", ident), sig_str(&p, &r));
        self.model.flat.insert(format!("func[{}].locals", ident), String::new());
        self.model.bodies.insert(ident.clone(), syms);
        if let Some(n) = name {
            self.model.flat.insert(format!("name.func[{}]", ident), n);
        }
        self.model.funcs.insert(
            fid,
            Ent { ident, alive: true, local: true, sig: Some((p, r)), type_id: Some(ty), imports_id: None, vt: None, mutable: false, mem64: false, added: true },
        );
        Ok(true)
    }

    fn op_add_import_fn(&mut self, rng: &mut Rng) -> Result<bool, (String, PanicInfo)> {
        let ftypes: Vec<u32> = self.g.types.iter().enumerate().filter(|(_, t)| matches!(t, TyInfo::Func(..))).map(|(i, _)| i as u32).collect();
        let t = *rng.pick(&ftypes);
        let name = self.fresh_import_name();
        let ident = sym::sanitize(&format!("I:env.{}", name));
        let m = &mut *self.m;
        let n2 = name.clone();
        let res = catch(move || {
            let (f, i) = m.add_import_func("env".to_string(), n2, TypeID(t));
            (*f, *i)
        });
        let (fid, iid) = match res {
            Ok(x) => x,
            Err(p) => return Err(("Module::add_import_func".into(), p)),
        };
        self.model.log.push(format!("add_import_func env.{} type {} -> FunctionID({}), ImportsID({})", name, t, fid, iid));
        self.model.flat.insert(format!("import[{}]", &ident[2..]), format!("func {}", self.model.types[t as usize]));
        // the library names an added import function after its import name: accepted, not required
        self.model.optional.insert(format!("name.func[{}]", ident));
        let sig = match &self.g.types[t as usize] {
            TyInfo::Func(p, r) => Some((p.clone(), r.clone())),
            _ => None,
        };
        self.model.funcs.insert(
            fid,
            Ent { ident, alive: true, local: false, sig, type_id: Some(t), imports_id: Some(iid), vt: None, mutable: false, mem64: false, added: true },
        );
        Ok(true)
    }

    fn op_delete_fn(&mut self, rng: &mut Rng) -> Result<bool, (String, PanicInfo)> {
        let dangling_ok = self.alphabet & A_DANGLING != 0;
        let cands: Vec<u32> = self
            .model
            .funcs
            .iter()
            .filter(|(_, e)| e.alive && (dangling_ok && rng_ok(e) || self.model.uses(&e.ident).is_empty()))
            .map(|(k, _)| *k)
            .collect();
        fn rng_ok(_e: &Ent) -> bool {
            true
        }
        if cands.is_empty() {
            return Ok(false);
        }
        let id = *rng.pick(&cands);
        self.model.log.push(format!("delete_func FunctionID({}) = {}", id, self.model.funcs[&id].ident));
        let m = &mut *self.m;
        let r = catch(|| m.delete_func(FunctionID(id)));
        self.model.kill_func(id);
        Self::err("Module::delete_func", r)
    }

    fn op_to_import(&mut self, rng: &mut Rng) -> Result<bool, (String, PanicInfo)> {
        let cands = self.live_funcs(|e| e.local && e.type_id.is_some());
        if cands.is_empty() {
            return Ok(false);
        }
        let id = *rng.pick(&cands);
        let e = self.model.funcs[&id].clone();
        let name = self.fresh_import_name();
        let new_ident = sym::sanitize(&format!("I:env.{}", name));
        self.model.log.push(format!("convert_local_fn_to_import FunctionID({}) = {} -> env.{}", id, e.ident, name));
        let m = &mut *self.m;
        let ty = e.type_id.unwrap();
        let n2 = name.clone();
        let r = catch(move || {
            let ok = m.convert_local_fn_to_import(FunctionID(id), "env".to_string(), n2, TypeID(ty));
            assert!(ok, "convert_local_fn_to_import returned false for a local function");
        });
        // model: body dies, import is born and inherits every use site
        let sig = self.model.flat.get(&format!("func[{}].sig", e.ident)).cloned().unwrap_or_default();
        self.model.remove_keys_with_prefix(&format!("func[{}].", e.ident));
        self.model.bodies.remove(&e.ident);
        self.model.names_optional("func", &e.ident);
        self.model.optional.insert(format!("name.func[{}]", new_ident));
        self.model.redirect(&e.ident, &new_ident);
        self.model.flat.insert(format!("import[{}]", &new_ident[2..]), format!("func {}", sig));
        let ent = self.model.funcs.get_mut(&id).unwrap();
        ent.ident = new_ident;
        ent.local = false;
        Self::err("Module::convert_local_fn_to_import", r)
    }

    fn op_replace_import(&mut self, rng: &mut Rng) -> Result<bool, (String, PanicInfo)> {
        // any live *function import* with a numeric signature the builder can reproduce
        let cands = self.live_funcs(|e| {
            !e.local && e.imports_id.is_some() && e.sig.as_ref().map(|(p, r)| p.iter().chain(r.iter()).all(|t| vt_dt(*t).is_some() && numeric(*t))).unwrap_or(false)
        });
        if cands.is_empty() {
            return Ok(false);
        }
        let id = *rng.pick(&cands);
        let e = self.model.funcs[&id].clone();
        let (p, r) = e.sig.clone().unwrap();
        let uid = self.model.next_uid;
        self.model.next_uid += 1;
        let new_ident = format!("L:{}", uid);
        let mut ops: Vec<wasmparser::Operator<'static>> = vec![
            wasmparser::Operator::I32Const { value: (crate::gen::FP_BASE + uid) as i32 },
            wasmparser::Operator::Drop,
        ];
        for t in &r {
            ops.push(const_op(*t, rng));
        }
        let mut syms: Vec<String> = ops.iter().map(|o| self.model.sym_injected(o)).collect();
        syms.push("End:0b".to_string());
        self.model.log.push(format!("replace_import_in_module ImportsID({}) (FunctionID({}) = {}) by built {}", e.imports_id.unwrap(), id, e.ident, new_ident));
        let pd: Vec<DataType> = p.iter().map(|t| vt_dt(*t).unwrap()).collect();
        let rd: Vec<DataType> = r.iter().map(|t| vt_dt(*t).unwrap()).collect();
        let m = &mut *self.m;
        let iid = e.imports_id.unwrap();
        // half of the time the ImportsID is looked up by name, as a caller would (ModuleImports::find)
        let by_name: Option<(String, String)> = if rng.bool() {
            e.ident.strip_prefix("I:").and_then(|s| s.split_once('.')).map(|(a, b)| (a.to_string(), b.to_string()))
        } else {
            None
        };
        if by_name.is_some() {
            self.model.log.push("  (ImportsID obtained through imports.find)".to_string());
        }
        let res = catch(move || {
            let mut fb = FunctionBuilder::new(&pd, &rd);
            for o in ops {
                use wirm::opcode::Inject;
                fb.inject(o);
            }
            let target = match by_name {
                Some((module, name)) => m.imports.find(module, name).expect("imports.find finds a live import by its names"),
                None => ImportsID(iid),
            };
            fb.replace_import_in_module(m, target);
        });
        let sig = self.model.flat.get(&format!("import[{}]", &e.ident[2..])).cloned().unwrap_or_default();
        let sig = sig.strip_prefix("func ").unwrap_or(&sig).to_string();
        self.model.flat.remove(&format!("import[{}]", &e.ident[2..]));
        self.model.names_optional("func", &e.ident);
        self.model.optional.insert(format!("name.func[{}]", new_ident));
        self.model.redirect(&e.ident, &new_ident);
        self.model.flat.insert(format!("func[{}].sig", new_ident), sig);
        self.model.flat.insert(format!("func[{}].locals", new_ident), String::new());
        self.model.bodies.insert(new_ident.clone(), syms);
        let ent = self.model.funcs.get_mut(&id).unwrap();
        ent.ident = new_ident;
        ent.local = true;
        ent.imports_id = None;
        Self::err("FunctionBuilder::replace_import_in_module", res)
    }

    fn op_inject_call(&mut self, rng: &mut Rng) -> Result<bool, (String, PanicInfo)> {
        let hosts = self.live_funcs(|e| e.local);
        let callable = self.callable();
        if hosts.is_empty() || callable.is_empty() {
            return Ok(false);
        }
        let into = *rng.pick(&hosts);
        let target = *rng.pick(&callable);
        let ident = self.model.funcs[&into].ident.clone();
        let len = self.model.bodies[&ident].len();
        // never in front of the fingerprint (instructions 0 and 1)
        let at = rng.range(2, len - 1);
        let after = rng.chance(1, 3) && at + 1 < len;
        let ops = self.call_seq(target, rng);
        self.model.log.push(format!("inject {} at FunctionID({})[{}]: call FunctionID({}) = {}", if after { "after" } else { "before" }, into, at, target, self.model.funcs[&target].ident));
        let r = self.inject_ops(into, at, ops, after);
        Self::err("FunctionModifier inject (call)", r)
    }

    fn op_add_export_fn(&mut self, rng: &mut Rng) -> Result<bool, (String, PanicInfo)> {
        let cands = self.live_funcs(|_| true);
        if cands.is_empty() {
            return Ok(false);
        }
        let id = *rng.pick(&cands);
        let name = self.export_name("xf", rng);
        let m = &mut *self.m;
        let n2 = name.clone();
        let r = catch(move || m.exports.add_export_func(n2, id, None));
        self.model.log.push(format!("add_export_func {} -> FunctionID({})", name, id));
        self.model.flat.insert(format!("export[{}]", self.model.n_exports), format!("{} func {}", name, self.model.funcs[&id].ident));
        self.model.n_exports += 1;
        Self::err("ModuleExports::add_export_func", r)
    }

    /// name for an added export: fresh, or (1 in 3, when there is one) the name of an export that was deleted earlier in the
    /// history and is not in use now
    fn export_name(&mut self, prefix: &str, rng: &mut Rng) -> String {
        let live: Vec<String> = (0..self.model.n_exports)
            .filter_map(|i| self.model.flat.get(&format!("export[{}]", i)).map(|v| v.split(' ').next().unwrap_or("").to_string()))
            .collect();
        let freed: Vec<String> = self
            .model
            .log
            .iter()
            .filter_map(|l| l.strip_prefix("exports.delete ").map(|n| n.to_string()))
            .filter(|n| !n.is_empty() && !live.contains(n))
            .collect();
        if !freed.is_empty() && rng.chance(1, 3) {
            return rng.pick(&freed).clone();
        }
        let name = format!("{}{}", prefix, self.model.next_uid);
        self.model.next_uid += 1;
        name
    }

    fn op_delete_export(&mut self, rng: &mut Rng) -> Result<bool, (String, PanicInfo)> {
        // exports are positional in the model: deleting export i shifts the later ones down
        let keys: Vec<(usize, String)> = (0..self.model.n_exports)
            .filter_map(|i| self.model.flat.get(&format!("export[{}]", i)).map(|v| (i, v.clone())))
            .collect();
        if keys.is_empty() {
            return Ok(false);
        }
        let (pos, val) = rng.pick(&keys).clone();
        let name = val.split(' ').next().unwrap_or("").to_string();
        let m = &mut *self.m;
        let n2 = name.clone();
        let r = catch(move || {
            let id: ExportsID = m.exports.get_export_id_by_name(n2).expect("export id by name");
            m.exports.delete(id);
        });
        self.model.log.push(format!("exports.delete {}", name));
        // shift
        let mut vals: Vec<String> = (0..self.model.n_exports).filter_map(|i| self.model.flat.remove(&format!("export[{}]", i))).collect();
        vals.remove(pos);
        for (i, v) in vals.iter().enumerate() {
            self.model.flat.insert(format!("export[{}]", i), v.clone());
        }
        self.model.n_exports = vals.len();
        Self::err("ModuleExports::delete", r)
    }

    fn op_set_fn_name(&mut self, rng: &mut Rng) -> Result<bool, (String, PanicInfo)> {
        // Module::set_fn_name decides import-vs-local by comparing the id with the number of
        // imported functions, which is only meaningful for ids of the parsed module
        let cands = self.live_funcs(|_| true);
        if cands.is_empty() {
            return Ok(false);
        }
        let id = *rng.pick(&cands);
        let e = self.model.funcs[&id].clone();
        let name = format!("renamed{}", self.model.next_uid);
        self.model.next_uid += 1;
        let m = &mut *self.m;
        let n2 = name.clone();
        let is_local = e.local;
        // imported functions can be named through three public calls
        let path = if is_local {
            0
        } else {
            match rng.below(3) {
                1 if e.imports_id.is_some() => 1,
                // ModuleImports::set_fn_name takes the FunctionID of an imported function: ids of the parsed module
                // (an import that was replaced by a local and converted back is a new import at the end of the import list:
                //  it is no longer "the id-th function import", so only untouched original imports qualify)
                2 if !e.added && id < self.g.n_imp_funcs && e.ident.starts_with("I:env.i") => 2,
                _ => 0,
            }
        };
        let imports_id = e.imports_id.unwrap_or(0);
        let r = catch(move || {
            if is_local {
                assert!(m.functions.set_local_fn_name(FunctionID(id), n2));
            } else if path == 1 {
                m.imports.set_name(n2, wirm::ir::id::ImportsID(imports_id));
            } else if path == 2 {
                m.imports.set_fn_name(n2, FunctionID(id));
            } else {
                m.set_fn_name(FunctionID(id), n2);
            }
        });
        self.model.log.push(format!(
            "set name{} of FunctionID({}) = {} to {}",
            ["", " (imports.set_name by ImportsID)", " (imports.set_fn_name by FunctionID)"][path],
            id,
            e.ident,
            name
        ));
        self.model.flat.insert(format!("name.func[{}]", e.ident), name);
        Self::err("set_fn_name", r)
    }

    // ---------------- globals

    fn fresh_global_init(&mut self, rng: &mut Rng, prefer_ref: bool) -> (VT, InitExpr, Vec<sym::SymOp>) {
        use wasmparser::Operator as O;
        let uid = self.model.next_uid;
        self.model.next_uid += 1;
        let live_globals: Vec<u32> = self.model.globals.iter().filter(|(_, e)| e.alive && !e.local && !e.mutable && e.vt.is_some()).map(|(k, _)| *k).collect();
        if prefer_ref && !live_globals.is_empty() && rng.bool() {
            let gid = *rng.pick(&live_globals);
            let t = self.model.globals[&gid].vt.unwrap();
            let op = O::GlobalGet { global_index: gid };
            return (t, InitExpr::new(vec![InitInstr::Global(GlobalID(gid))]), vec![sym::sym_op(&op).unwrap()]);
        }
        if self.alphabet & A_RICH != 0 {
            match rng.below(6) {
                0 => {
                    let bits: u128 = (0xabcd_u128 << 100) | ((rng.next_u64() as u128) << 32) | uid as u128;
                    let mut bytes = vec![];
                    {
                        use wasm_encoder::Encode;
                        wasm_encoder::Instruction::V128Const(bits as i128).encode(&mut bytes);
                    }
                    let sop = sym::SymOp { bytes, refs: vec![], name: "V128Const".into() };
                    return (VT::V128, InitExpr::new(vec![InitInstr::Value(Value::V128(bits))]), vec![sop]);
                }
                1 => {
                    // funcref global initialised with ref.func of a live function that is already declared
                    // (exported or in an element segment), so that the output can validate
                    let declared: Vec<u32> = self
                        .model
                        .funcs
                        .iter()
                        .filter(|(_, e)| e.alive && !self.model.uses(&e.ident).is_empty())
                        .map(|(k, _)| *k)
                        .collect();
                    if !declared.is_empty() {
                        let f = *rng.pick(&declared);
                        let op = O::RefFunc { function_index: f };
                        return (VT::FuncRef, InitExpr::new(vec![InitInstr::RefFunc(FunctionID(f))]), vec![sym::sym_op(&op).unwrap()]);
                    }
                }
                2 => {
                    let (vt, rt) = if rng.bool() { (VT::FuncRef, wasmparser::RefType::FUNCREF) } else { (VT::ExternRef, wasmparser::RefType::EXTERNREF) };
                    let op = O::RefNull { hty: rt.heap_type() };
                    return (vt, InitExpr::new(vec![InitInstr::RefNull(rt)]), vec![sym::sym_op(&op).unwrap()]);
                }
                _ => {}
            }
        }
        let t = *rng.pick(&[VT::I32, VT::I64, VT::F32, VT::F64]);
        let (v, op) = match t {
            VT::I32 => (Value::I32((0x2000_0000 + uid) as i32), O::I32Const { value: (0x2000_0000 + uid) as i32 }),
            VT::I64 => (Value::I64(0x2000_0000_0000 + uid as i64), O::I64Const { value: 0x2000_0000_0000 + uid as i64 }),
            VT::F32 => {
                let bits = 0x7fc0_0000u32 | (0x10000 + uid);
                (Value::F32(f32::from_bits(bits)), O::F32Const { value: wasmparser::Ieee32::from(f32::from_bits(bits)) })
            }
            _ => {
                let bits = 0x7ff8_0000_0000_0000u64 | (0x100000 + uid as u64);
                (Value::F64(f64::from_bits(bits)), O::F64Const { value: wasmparser::Ieee64::from(f64::from_bits(bits)) })
            }
        };
        (t, InitExpr::new(vec![InitInstr::Value(v)]), vec![sym::sym_op(&op).unwrap()])
    }

    fn global_type_str(t: VT, mutable: bool) -> String {
        format!("{} mut={} shared=false", vt_str(t), mutable)
    }

    fn init_sym_str(&self, ops: &[sym::SymOp]) -> String {
        let mut s = String::new();
        for op in ops {
            s.push_str(&format!("{}:{}", op.name, op.bytes.iter().map(|b| format!("{:02x}", b)).collect::<String>()));
            for (k, r) in &op.refs {
                s.push('@');
                s.push_str(&self.model.ident_of(*k, *r));
            }
            s.push(' ');
        }
        s
    }

    fn op_add_global(&mut self, rng: &mut Rng, via_iterator: bool) -> Result<bool, (String, PanicInfo)> {
        let mutable = rng.bool();
        let (t, init, sops) = self.fresh_global_init(rng, true);
        let tystr = Self::global_type_str(t, mutable);
        let ident = sym::global_ident(&tystr, &sops);
        if self.model.used_idents.contains(&ident) {
            return Ok(false);
        }
        if via_iterator && self.model.funcs.values().all(|e| !(e.local && !e.added)) {
            return Ok(false);
        }
        let init_str = self.init_sym_str(&sops);
        let m = &mut *self.m;
        let dt = vt_dt(t).unwrap();
        let res = catch(move || {
            if via_iterator {
                let mut it = ModuleIterator::new(m, &vec![]);
                let gl = Global::new(
                    GlobalKind::Local(LocalGlobal {
                        global_id: GlobalID(0),
                        ty: wasmparser::GlobalType { mutable, content_type: wasmparser::ValType::from(&dt), shared: false },
                        init_expr: init,
                    }),
                    None,
                );
                *it.add_global(gl)
            } else {
                *m.add_global(init, dt, mutable, false)
            }
        });
        let gid = match res {
            Ok(x) => x,
            Err(p) => return Err((if via_iterator { "ModuleIterator::add_global" } else { "Module::add_global" }.into(), p)),
        };
        self.model.log.push(format!("{} {} init {} -> GlobalID({})", if via_iterator { "iterator add_global" } else { "add_global" }, tystr, init_str, gid));
        self.model.used_idents.insert(ident.clone());
        self.model.flat.insert(format!("global[{}].type", ident), tystr);
        self.model.flat.insert(format!("global[{}].init", ident), init_str);
        self.model.globals.insert(
            gid,
            Ent { ident, alive: true, local: true, sig: None, type_id: None, imports_id: None, vt: Some(t), mutable, mem64: false, added: true },
        );
        Ok(true)
    }

    fn op_add_imported_global(&mut self, rng: &mut Rng) -> Result<bool, (String, PanicInfo)> {
        let t = *rng.pick(&[VT::I32, VT::I64, VT::F32, VT::F64]);
        let mutable = rng.bool();
        let name = self.fresh_import_name();
        let ident = sym::sanitize(&format!("IG:env.{}", name));
        let m = &mut *self.m;
        let n2 = name.clone();
        let dt = vt_dt(t).unwrap();
        let res = catch(move || {
            let (g, _) = m.add_imported_global("env".to_string(), n2, dt, mutable, false);
            *g
        });
        let gid = match res {
            Ok(x) => x,
            Err(p) => return Err(("Module::add_imported_global".into(), p)),
        };
        self.model.log.push(format!("add_imported_global env.{} {} mut={} -> GlobalID({})", name, vt_str(t), mutable, gid));
        self.model.flat.insert(format!("import[{}]", &ident[3..]), format!("global {}", Self::global_type_str(t, mutable)));
        self.model.globals.insert(
            gid,
            Ent { ident, alive: true, local: false, sig: None, type_id: None, imports_id: None, vt: Some(t), mutable, mem64: false, added: true },
        );
        Ok(true)
    }

    fn op_delete_global(&mut self, rng: &mut Rng) -> Result<bool, (String, PanicInfo)> {
        let dangling_ok = self.alphabet & A_DANGLING != 0;
        let cands: Vec<u32> = self
            .model
            .globals
            .iter()
            .filter(|(_, e)| e.alive && (dangling_ok || self.model.uses(&e.ident).is_empty()))
            .map(|(k, _)| *k)
            .collect();
        if cands.is_empty() {
            return Ok(false);
        }
        let id = *rng.pick(&cands);
        self.model.log.push(format!("delete_global GlobalID({}) = {}", id, self.model.globals[&id].ident));
        let m = &mut *self.m;
        let r = catch(|| m.delete_global(GlobalID(id)));
        self.model.kill_global(id);
        Self::err("Module::delete_global", r)
    }

    fn op_mod_global_init(&mut self, rng: &mut Rng) -> Result<bool, (String, PanicInfo)> {
        // numeric local globals only; the new initialiser is a fresh unique constant of the same type
        let cands: Vec<u32> = self
            .model
            .globals
            .iter()
            .filter(|(_, e)| e.alive && e.local && e.vt.map(numeric).unwrap_or(false))
            .map(|(k, _)| *k)
            .collect();
        if cands.is_empty() {
            return Ok(false);
        }
        let id = *rng.pick(&cands);
        let e = self.model.globals[&id].clone();
        use wasmparser::Operator as O;
        let uid = self.model.next_uid;
        self.model.next_uid += 1;
        let (v, op) = match e.vt.unwrap() {
            VT::I32 => (Value::I32((0x3000_0000 + uid) as i32), O::I32Const { value: (0x3000_0000 + uid) as i32 }),
            VT::I64 => (Value::I64(0x3000_0000_0000 + uid as i64), O::I64Const { value: 0x3000_0000_0000 + uid as i64 }),
            VT::F32 => {
                let bits = 0x7fc0_0000u32 | (0x20000 + uid);
                (Value::F32(f32::from_bits(bits)), O::F32Const { value: wasmparser::Ieee32::from(f32::from_bits(bits)) })
            }
            _ => {
                let bits = 0xfff8_0000_0000_0000u64 | (0x200000 + uid as u64);
                (Value::F64(f64::from_bits(bits)), O::F64Const { value: wasmparser::Ieee64::from(f64::from_bits(bits)) })
            }
        };
        let tystr = self.model.flat.get(&format!("global[{}].type", e.ident)).cloned().unwrap_or_default();
        // floats, 1 in 4: two replacements in a row, a zero and then the zero of the other sign (bit-exact: the second must win)
        let mut first: Option<Value> = None;
        let (v, op) = if matches!(e.vt.unwrap(), VT::F32 | VT::F64) && rng.chance(1, 4) {
            let neg = rng.bool();
            let (z, zop, other) = if e.vt.unwrap() == VT::F32 {
                let b = if neg { 0x8000_0000u32 } else { 0 };
                (Value::F32(f32::from_bits(b)), O::F32Const { value: wasmparser::Ieee32::from(f32::from_bits(b)) }, Value::F32(f32::from_bits(b ^ 0x8000_0000)))
            } else {
                let b = if neg { 0x8000_0000_0000_0000u64 } else { 0 };
                (Value::F64(f64::from_bits(b)), O::F64Const { value: wasmparser::Ieee64::from(f64::from_bits(b)) }, Value::F64(f64::from_bits(b ^ 0x8000_0000_0000_0000)))
            };
            if self.model.used_idents.contains(&sym::global_ident(&tystr, &[sym::sym_op(&zop).unwrap()])) {
                (v, op)
            } else {
                first = Some(other);
                (z, zop)
            }
        } else {
            (v, op)
        };
        let sops = vec![sym::sym_op(&op).unwrap()];
        let new_ident = sym::global_ident(&tystr, &sops);
        let init_str = self.init_sym_str(&sops);
        self.model.log.push(format!("mod_global_init_expr GlobalID({}) = {} -> {}{}", id, e.ident, if first.is_some() { "zero of the other sign, then " } else { "" }, init_str));
        let m = &mut *self.m;
        let r = catch(move || {
            if let Some(f) = first {
                m.mod_global_init_expr(GlobalID(id), InitExpr::new(vec![InitInstr::Value(f)]));
            }
            m.mod_global_init_expr(GlobalID(id), InitExpr::new(vec![InitInstr::Value(v)]))
        });
        // identity of a local global is its (type, initialiser): re-key
        self.model.flat.remove(&format!("global[{}].type", e.ident));
        self.model.flat.remove(&format!("global[{}].init", e.ident));
        if let Some(n) = self.model.flat.remove(&format!("name.global[{}]", e.ident)) {
            self.model.flat.insert(format!("name.global[{}]", new_ident), n);
        }
        self.model.redirect(&e.ident, &new_ident);
        self.model.flat.insert(format!("global[{}].type", new_ident), tystr);
        self.model.flat.insert(format!("global[{}].init", new_ident), init_str);
        self.model.used_idents.insert(new_ident.clone());
        self.model.globals.get_mut(&id).unwrap().ident = new_ident;
        Self::err("Module::mod_global_init_expr", r)
    }

    fn op_inject_global(&mut self, rng: &mut Rng) -> Result<bool, (String, PanicInfo)> {
        let hosts = self.live_funcs(|e| e.local);
        let gl: Vec<u32> = self.model.globals.iter().filter(|(_, e)| e.alive).map(|(k, _)| *k).collect();
        if hosts.is_empty() || gl.is_empty() {
            return Ok(false);
        }
        let into = *rng.pick(&hosts);
        let gid = *rng.pick(&gl);
        let ident = self.model.funcs[&into].ident.clone();
        let len = self.model.bodies[&ident].len();
        // never in front of the fingerprint (instructions 0 and 1)
        let at = rng.range(2, len - 1);
        let after = rng.chance(1, 3) && at + 1 < len;
        let ops = self.global_seq(gid, rng);
        if ops.iter().any(|o| sym::op_name(o).starts_with("GlobalAtomic")) {
            self.model.novalidate = true;
        }
        self.model.log.push(format!("inject at FunctionID({})[{}]: global op on GlobalID({}) = {}", into, at, gid, self.model.globals[&gid].ident));
        let r = self.inject_ops(into, at, ops, after);
        Self::err("FunctionModifier inject (global)", r)
    }

    // ---------------- memories

    fn op_add_local_mem(&mut self, rng: &mut Rng) -> Result<bool, (String, PanicInfo)> {
        let uid = self.model.next_uid;
        self.model.next_uid += 1;
        let rich = self.alphabet & A_RICH != 0;
        let shared = rich && rng.chance(1, 4);
        let memory64 = rich && rng.chance(1, 4);
        let ty = wasmparser::MemoryType {
            memory64,
            shared,
            initial: 1000 + uid as u64,
            maximum: if shared || rng.bool() { Some(2000 + uid as u64) } else { None },
            page_size_log2: None,
        };
        let desc = format!("{:?}", ty);
        let ident = sym::mem_ident_of(&desc);
        let m = &mut *self.m;
        let res = catch(move || *m.add_local_memory(ty));
        let mid = match res {
            Ok(x) => x,
            Err(p) => return Err(("Module::add_local_memory".into(), p)),
        };
        self.model.log.push(format!("add_local_memory initial {} -> MemoryID({})", 1000 + uid, mid));
        self.model.flat.insert(format!("memory[{}]", ident), desc);
        self.model.mems.insert(
            mid,
            Ent { ident, alive: true, local: true, sig: None, type_id: None, imports_id: None, vt: None, mutable: false, mem64: memory64, added: true },
        );
        Ok(true)
    }

    fn op_add_import_mem(&mut self, rng: &mut Rng) -> Result<bool, (String, PanicInfo)> {
        let name = self.fresh_import_name();
        let ident = sym::sanitize(&format!("IM:env.{}", name));
        let rich = self.alphabet & A_RICH != 0;
        let shared = rich && rng.chance(1, 4);
        let memory64 = rich && rng.chance(1, 4);
        let ty = wasmparser::MemoryType { memory64, shared, initial: rng.range(1, 9) as u64, maximum: Some(64), page_size_log2: None };
        let desc = format!("{:?}", ty);
        let m = &mut *self.m;
        let n2 = name.clone();
        let res = catch(move || {
            let (mm, _) = m.add_import_memory("env".to_string(), n2, ty);
            *mm
        });
        let mid = match res {
            Ok(x) => x,
            Err(p) => return Err(("Module::add_import_memory".into(), p)),
        };
        self.model.log.push(format!("add_import_memory env.{} -> MemoryID({})", name, mid));
        self.model.flat.insert(format!("import[{}]", &ident[3..]), format!("memory {}", desc));
        self.model.mems.insert(
            mid,
            Ent { ident, alive: true, local: false, sig: None, type_id: None, imports_id: None, vt: None, mutable: false, mem64: memory64, added: true },
        );
        Ok(true)
    }

    fn op_delete_mem(&mut self, rng: &mut Rng) -> Result<bool, (String, PanicInfo)> {
        let dangling_ok = self.alphabet & A_DANGLING != 0;
        let cands: Vec<u32> =
            self.model.mems.iter().filter(|(_, e)| e.alive && (dangling_ok || self.model.uses(&e.ident).is_empty())).map(|(k, _)| *k).collect();
        if cands.is_empty() {
            return Ok(false);
        }
        let id = *rng.pick(&cands);
        self.model.log.push(format!("delete_memory MemoryID({}) = {}", id, self.model.mems[&id].ident));
        let m = &mut *self.m;
        let r = catch(|| m.delete_memory(MemoryID(id)));
        self.model.kill_mem(id);
        Self::err("Module::delete_memory", r)
    }

    fn op_inject_mem(&mut self, rng: &mut Rng) -> Result<bool, (String, PanicInfo)> {
        let hosts = self.live_funcs(|e| e.local);
        let ml: Vec<u32> = self.model.mems.iter().filter(|(_, e)| e.alive).map(|(k, _)| *k).collect();
        if hosts.is_empty() || ml.is_empty() {
            return Ok(false);
        }
        let into = *rng.pick(&hosts);
        let mid = *rng.pick(&ml);
        let ident = self.model.funcs[&into].ident.clone();
        let len = self.model.bodies[&ident].len();
        // never in front of the fingerprint (instructions 0 and 1)
        let at = rng.range(2, len - 1);
        let after = rng.chance(1, 3) && at + 1 < len;
        let ops = self.mem_seq(mid, rng);
        self.model.log.push(format!("inject at FunctionID({})[{}]: memory op on MemoryID({}) = {}", into, at, mid, self.model.mems[&mid].ident));
        let r = self.inject_ops(into, at, ops, after);
        Self::err("FunctionModifier inject (memory)", r)
    }

    fn op_add_export_mem(&mut self, rng: &mut Rng) -> Result<bool, (String, PanicInfo)> {
        let ml: Vec<u32> = self.model.mems.iter().filter(|(_, e)| e.alive).map(|(k, _)| *k).collect();
        if ml.is_empty() {
            return Ok(false);
        }
        let id = *rng.pick(&ml);
        let name = self.export_name("xm", rng);
        let m = &mut *self.m;
        let n2 = name.clone();
        let r = catch(move || m.exports.add_export_mem(n2, id, None));
        self.model.log.push(format!("add_export_mem {} -> MemoryID({})", name, id));
        self.model.flat.insert(format!("export[{}]", self.model.n_exports), format!("{} memory {}", name, self.model.mems[&id].ident));
        self.model.n_exports += 1;
        Self::err("ModuleExports::add_export_mem", r)
    }

    fn op_add_data(&mut self, rng: &mut Rng) -> Result<bool, (String, PanicInfo)> {
        let ml: Vec<u32> = self.model.mems.iter().filter(|(_, e)| e.alive && !e.mem64).map(|(k, _)| *k).collect();
        let uid = self.model.next_uid;
        self.model.next_uid += 1;
        let mut payload = vec![0xDA, 0x7A];
        payload.extend_from_slice(&uid.to_le_bytes());
        let n_extra = rng.below(6);
        payload.extend(rng.bytes(n_extra));
        if self.alphabet & A_RICH != 0 && (ml.is_empty() || rng.chance(1, 3)) {
            // passive segment
            let seg = DataSegment { kind: DataSegmentKind::Passive, data: payload.clone(), tag: None };
            let m = &mut *self.m;
            let r = catch(move || {
                m.add_data(seg);
            });
            let i = self.model.n_datas;
            self.model.n_datas += 1;
            self.model.log.push("add_data passive".to_string());
            self.model.flat.insert(format!("data[{}].mem", i), "passive".into());
            self.model.flat.insert(format!("data[{}].bytes", i), payload.iter().map(|b| format!("{:02x}", b)).collect());
            return Self::err("Module::add_data", r);
        }
        if ml.is_empty() {
            return Ok(false);
        }
        let mid = *rng.pick(&ml);
        let off = rng.below(64) as i32;
        // 1 in 3 (when there is one): the offset reads an imported immutable i32 global instead of a constant
        let off_globals: Vec<u32> =
            self.model.globals.iter().filter(|(_, e)| e.alive && !e.local && !e.mutable && e.vt == Some(VT::I32)).map(|(k, _)| *k).collect();
        let via_global = if !off_globals.is_empty() && rng.chance(1, 3) { Some(*rng.pick(&off_globals)) } else { None };
        let offset_expr = match via_global {
            Some(gid) => InitExpr::new(vec![InitInstr::Global(GlobalID(gid))]),
            None => InitExpr::new(vec![InitInstr::Value(Value::I32(off))]),
        };
        let seg = DataSegment { kind: DataSegmentKind::Active { memory_index: mid, offset_expr }, data: payload.clone(), tag: None };
        let m = &mut *self.m;
        let r = catch(move || {
            m.add_data(seg);
        });
        let i = self.model.n_datas;
        self.model.n_datas += 1;
        self.model.log.push(format!("add_data active on MemoryID({}) = {}", mid, self.model.mems[&mid].ident));
        let offop = match via_global {
            Some(gid) => sym::sym_op(&wasmparser::Operator::GlobalGet { global_index: gid }).unwrap(),
            None => sym::sym_op(&wasmparser::Operator::I32Const { value: off }).unwrap(),
        };
        self.model.flat.insert(format!("data[{}].mem", i), self.model.mems[&mid].ident.clone());
        self.model.flat.insert(format!("data[{}].offset", i), self.init_sym_str(&[offop]));
        self.model.flat.insert(format!("data[{}].bytes", i), payload.iter().map(|b| format!("{:02x}", b)).collect());
        Self::err("Module::add_data", r)
    }
}


// ------------------------------------------------------------------------------------
// C12 / C14: rich builder bodies through the Opcode helpers, and every local-adding API

fn dt_str(d: DataType) -> String {
    match d {
        DataType::I32 => "i32",
        DataType::I64 => "i64",
        DataType::F32 => "f32",
        DataType::F64 => "f64",
        DataType::V128 => "v128",
        DataType::FuncRefNull => "funcref",
        DataType::ExternRefNull => "externref",
        DataType::FuncRef => "(ref func)",
        DataType::ExternRef => "(ref extern)",
        DataType::AnyNull => "anyref",
        DataType::EqNull => "eqref",
        DataType::I31Null => "i31ref",
        // a nullable reference to a type of the module, as wasmparser prints it
        DataType::Module { ty_id, nullable: true } => return format!("(ref null (module {}))", ty_id),
        _ => "?",
    }
    .to_string()
}
/// `func_types`: indices of function types of the base module (a local may be a nullable reference to one of them)
fn random_local_type(rng: &mut Rng, func_types: &[u32]) -> DataType {
    if !func_types.is_empty() && rng.chance(1, 10) {
        return DataType::Module { ty_id: *rng.pick(func_types), nullable: true };
    }
    *rng.pick(&[
        DataType::I32,
        DataType::I64,
        DataType::F32,
        DataType::F64,
        DataType::V128,
        DataType::FuncRefNull,
        DataType::ExternRefNull,
        DataType::FuncRef,
        DataType::AnyNull,
        DataType::I32,
        DataType::I64,
    ])
}

struct RichBody<'x, 'a> {
    fb: FunctionBuilder<'a>,
    syms: Vec<String>,
    model: &'x Model,
    /// (index, type) of numeric params/locals
    vars: Vec<(u32, VT)>,
    depth: u32,
}

fn blank_args() -> crate::props::c24_table::Args {
    crate::props::c24_table::Args {
        u: [0, 0],
        w: 0,
        bt: wirm::ir::types::BlockType::Empty,
        bt_enc: wasm_encoder::BlockType::Empty,
        memarg: wasmparser::MemArg { align: 0, max_align: 0, offset: 0, memory: 0 },
        memarg_enc: wasm_encoder::MemArg { offset: 0, align: 0, memory_index: 0 },
        ht: wirm::ir::module::module_types::HeapType::Abstract { shared: false, ty: wirm::ir::module::module_types::AbstractHeapType::Func },
        ht_enc: wasm_encoder::HeapType::Abstract { shared: false, ty: wasm_encoder::AbstractHeapType::Func },
    }
}

impl<'x, 'a> RichBody<'x, 'a> {
    /// call helper `name` on the builder and record the independently expected instruction
    fn h(&mut self, name: &str, a: &crate::props::c24_table::Args) {
        use wasm_encoder::Encode;
        let ok = crate::props::c24_table::apply(name, &mut self.fb, a);
        assert!(ok, "unknown helper {}", name);
        let exp = crate::props::c24_table::expected(name, a).expect("expected instruction");
        let mut bytes = vec![];
        exp.encode(&mut bytes);
        // the operator reader checks block structure, so the two closing forms are mapped by hand
        let op = match bytes.as_slice() {
            [0x05] => wasmparser::Operator::Else,
            [0x0b] => wasmparser::Operator::End,
            _ => {
                let mut rd = wasmparser::OperatorsReader::new(wasmparser::BinaryReader::new(&bytes, 0));
                rd.read().expect("decode expected instruction")
            }
        };
        self.syms.push(self.model.sym_injected(&op));
    }
    fn h0(&mut self, name: &str) {
        self.h(name, &blank_args());
    }
    fn hu(&mut self, name: &str, u0: u32) {
        let mut a = blank_args();
        a.u[0] = u0;
        self.h(name, &a);
    }
    fn konst(&mut self, t: VT, rng: &mut Rng) {
        let mut a = blank_args();
        match t {
            VT::I32 => {
                a.u[0] = rng.interesting_u32();
                if rng.chance(1, 4) {
                    self.h("u32_const", &a)
                } else {
                    self.h("i32_const", &a)
                }
            }
            VT::I64 => {
                a.w = rng.interesting_u64();
                if rng.chance(1, 4) {
                    self.h("u64_const", &a)
                } else {
                    self.h("i64_const", &a)
                }
            }
            VT::F32 => {
                a.u[0] = rng.interesting_u32();
                self.h("f32_const", &a)
            }
            _ => {
                a.w = rng.interesting_u64();
                self.h("f64_const", &a)
            }
        }
    }
    fn push(&mut self, t: VT, rng: &mut Rng) {
        let cands: Vec<u32> = self.vars.iter().filter(|(_, vt)| *vt == t).map(|(i, _)| *i).collect();
        if !cands.is_empty() && rng.bool() {
            let i = *rng.pick(&cands);
            self.hu("local_get", i);
        } else {
            self.konst(t, rng);
        }
    }
    fn consume(&mut self, t: VT, rng: &mut Rng) {
        let cands: Vec<u32> = self.vars.iter().filter(|(_, vt)| *vt == t).map(|(i, _)| *i).collect();
        match rng.below(3) {
            0 if !cands.is_empty() => {
                let i = *rng.pick(&cands);
                self.hu("local_set", i)
            }
            1 if !cands.is_empty() => {
                let i = *rng.pick(&cands);
                self.hu("local_tee", i);
                self.h0("drop")
            }
            _ => self.h0("drop"),
        }
    }
    fn stmt(&mut self, rng: &mut Rng, has_mem0: bool) {
        use VT::*;
        const OPS: &[(&str, &[VT], VT)] = &[
            ("i32_add", &[I32, I32], I32),
            ("i32_sub", &[I32, I32], I32),
            ("i32_mul", &[I32, I32], I32),
            ("i32_and", &[I32, I32], I32),
            ("i32_or", &[I32, I32], I32),
            ("i32_xor", &[I32, I32], I32),
            ("i32_shl", &[I32, I32], I32),
            ("i32_shr_signed", &[I32, I32], I32),
            ("i32_shr_unsigned", &[I32, I32], I32),
            ("i32_rotl", &[I32, I32], I32),
            ("i32_rotr", &[I32, I32], I32),
            ("i32_eq", &[I32, I32], I32),
            ("i32_eqz", &[I32], I32),
            ("i32_ne", &[I32, I32], I32),
            ("i32_lt_unsigned", &[I32, I32], I32),
            ("i32_lt_signed", &[I32, I32], I32),
            ("i32_gt_unsigned", &[I32, I32], I32),
            ("i32_gt_signed", &[I32, I32], I32),
            ("i32_lte_unsigned", &[I32, I32], I32),
            ("i32_lte_signed", &[I32, I32], I32),
            ("i32_gte_unsigned", &[I32, I32], I32),
            ("i32_gte_signed", &[I32, I32], I32),
            ("i32_wrap_i64", &[I64], I32),
            ("i32_extend_8s", &[I32], I32),
            ("i32_extend_16s", &[I32], I32),
            ("i32_reinterpret_f32", &[F32], I32),
            ("i64_add", &[I64, I64], I64),
            ("i64_sub", &[I64, I64], I64),
            ("i64_mul", &[I64, I64], I64),
            ("i64_and", &[I64, I64], I64),
            ("i64_xor", &[I64, I64], I64),
            ("i64_shr_signed", &[I64, I64], I64),
            ("i64_rotl", &[I64, I64], I64),
            ("i64_eq", &[I64, I64], I32),
            ("i64_eqz", &[I64], I32),
            ("i64_lt_unsigned", &[I64, I64], I32),
            ("i64_gte_signed", &[I64, I64], I32),
            ("i64_extend_i32u", &[I32], I64),
            ("i64_extend_i32s", &[I32], I64),
            ("i64_reinterpret_f64", &[F64], I64),
            ("f32_abs", &[F32], F32),
            ("f32_ceil", &[F32], F32),
            ("f32_sqrt", &[F32], F32),
            ("f32_add", &[F32, F32], F32),
            ("f32_mul", &[F32, F32], F32),
            ("f32_min", &[F32, F32], F32),
            ("f32_eq", &[F32, F32], I32),
            ("f32_le", &[F32, F32], I32),
            ("f32_convert_i32s", &[I32], F32),
            ("f32_convert_i64u", &[I64], F32),
            ("f32_demote_f64", &[F64], F32),
            ("f32_reinterpret_i32", &[I32], F32),
            ("f32_copysign", &[F32, F32], F32),
            ("f64_floor", &[F64], F64),
            ("f64_trunc", &[F64], F64),
            ("f64_sub", &[F64, F64], F64),
            ("f64_div", &[F64, F64], F64),
            ("f64_max", &[F64, F64], F64),
            ("f64_ne", &[F64, F64], I32),
            ("f64_gt", &[F64, F64], I32),
            ("f64_promote_f32", &[F32], F64),
            ("f64_convert_i32u", &[I32], F64),
            ("f64_convert_i64s", &[I64], F64),
            ("f64_reinterpret_i64", &[I64], F64),
            ("f64_copysign", &[F64, F64], F64),
        ];
        match rng.below(10) {
            0..=5 => {
                let (name, ins, outt) = *rng.pick(OPS);
                for t in ins {
                    self.push(*t, rng);
                }
                self.h0(name);
                self.consume(outt, rng);
            }
            6 if self.depth < 3 => {
                // block / loop / if with empty type
                self.depth += 1;
                let k = rng.below(3);
                match k {
                    0 => self.h0("block"),
                    1 => self.h0("loop_stmt"),
                    _ => {
                        self.push(I32, rng);
                        self.h0("if_stmt")
                    }
                }
                let n = rng.below(3);
                for _ in 0..n {
                    self.stmt(rng, has_mem0);
                }
                if rng.chance(1, 3) {
                    self.push(I32, rng);
                    self.hu("br_if", rng.below(self.depth as usize) as u32);
                }
                if k == 2 && rng.bool() {
                    self.h0("else_stmt");
                    self.h0("nop");
                }
                self.h0("end");
                self.depth -= 1;
            }
            7 => {
                let t = *rng.pick(&[I32, I64, F32, F64]);
                self.push(t, rng);
                self.push(t, rng);
                self.push(I32, rng);
                self.h0("select");
                self.consume(t, rng);
            }
            8 if has_mem0 => {
                let mut a = blank_args();
                a.u[0] = rng.below(256) as u32;
                self.h("i32_const", &a);
                let (name, al, t, store): (&str, u8, VT, bool) = *rng.pick(&[
                    ("i32_load", 2, I32, false),
                    ("i64_load", 3, I64, false),
                    ("f32_load", 2, F32, false),
                    ("f64_load", 3, F64, false),
                    ("i32_load8_s", 0, I32, false),
                    ("i32_load16_u", 1, I32, false),
                    ("i64_load32_s", 2, I64, false),
                    ("i32_store", 2, I32, true),
                    ("i64_store", 3, I64, true),
                    ("f64_store", 3, F64, true),
                    ("i32_store8", 0, I32, true),
                ]);
                let align = rng.below(al as usize + 1) as u8;
                let offset = rng.below(1000) as u64;
                let mut m = blank_args();
                m.memarg = wasmparser::MemArg { align, max_align: al, offset, memory: 0 };
                m.memarg_enc = wasm_encoder::MemArg { offset, align: align as u32, memory_index: 0 };
                if store {
                    self.push(t, rng);
                    self.h(name, &m);
                } else {
                    self.h(name, &m);
                    self.consume(t, rng);
                }
            }
            _ => {
                self.h0("nop");
            }
        }
    }
}

impl<'m, 'a> Driver<'m, 'a> {
    fn op_build_rich_fn(&mut self, rng: &mut Rng) -> Result<bool, (String, PanicInfo)> {
        use wirm::module_builder::AddLocal;
        let tys = [VT::I32, VT::I64, VT::F32, VT::F64];
        let np = rng.below(5);
        let nr = rng.below(5);
        let p: Vec<VT> = (0..np).map(|_| *rng.pick(&tys)).collect();
        let r: Vec<VT> = (0..nr).map(|_| *rng.pick(&tys)).collect();
        let uid = self.model.next_uid;
        self.model.next_uid += 1;
        let ident = format!("L:{}", uid);
        let pd: Vec<DataType> = p.iter().map(|t| vt_dt(*t).unwrap()).collect();
        let rd: Vec<DataType> = r.iter().map(|t| vt_dt(*t).unwrap()).collect();
        let nlocals = rng.below(6);
        let base_func_types: Vec<u32> = self.g.types.iter().enumerate().filter(|(_, t)| matches!(t, TyInfo::Func(..))).map(|(i, _)| i as u32).collect();
        let local_tys: Vec<DataType> = (0..nlocals).map(|_| random_local_type(rng, &base_func_types)).collect();
        let has_mem0 = self.model.mems.get(&0).map(|e| e.alive && !e.mem64).unwrap_or(false);
        let name = if rng.bool() { Some(format!("rich{}", uid)) } else { None };
        let nstmts = rng.range(2, 10);
        // the body is built outside catch only as far as the model is concerned; all wirm calls are inside
        let model_ref: &Model = &self.model;
        let mut rb_rng = rng.clone();
        let built = catch(|| {
            let mut rb = RichBody { fb: FunctionBuilder::new(&pd, &rd), syms: vec![], model: model_ref, vars: vec![], depth: 0 };
            let mut id_errors: Vec<String> = vec![];
            for (i, t) in p.iter().enumerate() {
                rb.vars.push((i as u32, *t));
            }
            // locals may be added before and in between instructions
            let mut declared = 0u32;
            let mut a = blank_args();
            a.u[0] = crate::gen::FP_BASE + uid;
            rb.h("i32_const", &a);
            rb.h0("drop");
            let mut pending: Vec<DataType> = local_tys.clone();
            for s in 0..nstmts {
                if !pending.is_empty() && (s == 0 || rb_rng.bool()) {
                    let dt = pending.remove(0);
                    let got = rb.fb.add_local(dt);
                    let want = p.len() as u32 + declared;
                    if *got != want {
                        id_errors.push(format!("FunctionBuilder::add_local returned {} for local #{} of a function with {} params", *got, declared, p.len()));
                    }
                    if let Some(vt) = [VT::I32, VT::I64, VT::F32, VT::F64].iter().find(|v| vt_dt(**v) == Some(dt)) {
                        rb.vars.push((want, *vt));
                    }
                    declared += 1;
                }
                rb.stmt(&mut rb_rng, has_mem0);
            }
            for dt in pending {
                let got = rb.fb.add_local(dt);
                let want = p.len() as u32 + declared;
                if *got != want {
                    id_errors.push(format!("FunctionBuilder::add_local returned {} expected {}", *got, want));
                }
                declared += 1;
            }
            for t in &r {
                rb.push(*t, &mut rb_rng);
            }
            if rb_rng.chance(1, 4) {
                rb.h0("return_stmt");
            }
            (rb.fb, rb.syms, id_errors)
        });
        *rng = rb_rng;
        let (mut fb, mut syms, id_errors) = match built {
            Ok(x) => x,
            Err(pn) => return Err(("FunctionBuilder helpers".into(), pn)),
        };
        syms.push("End:0b".to_string());
        let m = &mut *self.m;
        let name2 = name.clone();
        let res = catch(move || {
            if let Some(n) = name2 {
                fb.set_name(n);
            }
            let fid = fb.finish_module(m);
            let ty = m.functions.get_type_id(fid);
            (*fid, *ty)
        });
        let (fid, ty) = match res {
            Ok(x) => x,
            Err(pn) => return Err(("FunctionBuilder::finish_module".into(), pn)),
        };
        self.model.log.push(format!(
            "build fn {} sig {:?}->{:?} locals [{}] {} instrs name {:?} -> FunctionID({})",
            ident,
            p,
            r,
            local_tys.iter().map(|d| dt_str(*d)).collect::<Vec<_>>().join(","),
            syms.len(),
            name,
            fid
        ));
        for e in id_errors {
            self.model.flat.insert(format!("~iderror[{}]", self.model.flat.len()), e);
        }
        self.model.flat.insert(format!("func[{}].sig", ident), sig_str(&p, &r));
        self.model.flat.insert(format!("func[{}].locals", ident), local_tys.iter().map(|d| dt_str(*d)).collect::<Vec<_>>().join(","));
        self.model.bodies.insert(ident.clone(), syms);
        if let Some(n) = name {
            self.model.flat.insert(format!("name.func[{}]", ident), n);
        }
        self.model.funcs.insert(
            fid,
            Ent { ident, alive: true, local: true, sig: Some((p, r)), type_id: Some(ty), imports_id: None, vt: None, mutable: false, mem64: false, added: true },
        );
        Ok(true)
    }

    /// C14: add locals to an existing local function through one of the local-adding APIs
    fn op_add_locals_existing(&mut self, rng: &mut Rng) -> Result<bool, (String, PanicInfo)> {
        use wirm::module_builder::AddLocal;
        let hosts = self.live_funcs(|e| e.local && e.sig.is_some());
        if hosts.is_empty() {
            return Ok(false);
        }
        let fid = *rng.pick(&hosts);
        let e = self.model.funcs[&fid].clone();
        let nparams = e.sig.as_ref().unwrap().0.len() as u32;
        let key = format!("func[{}].locals", e.ident);
        let cur = self.model.flat.get(&key).cloned().unwrap_or_default();
        let ncur = if cur.is_empty() { 0 } else { split_types(&cur).len() as u32 };
        let n = rng.range(1, 3);
        let base_func_types: Vec<u32> = self.g.types.iter().enumerate().filter(|(_, t)| matches!(t, TyInfo::Func(..))).map(|(i, _)| i as u32).collect();
        let tys: Vec<DataType> = (0..n).map(|_| random_local_type(rng, &base_func_types)).collect();
        let path = rng.below(4);
        let path_name = ["FunctionModifier::add_local", "FunctionModifier::add_locals", "LocalFunction::add_local", "ModuleIterator::add_local"][path];
        let m = &mut *self.m;
        let tys2 = tys.clone();
        let res = catch(move || -> Vec<Option<u32>> {
            match path {
                0 => {
                    let mut fm = m.functions.get_fn_modifier(FunctionID(fid)).expect("modifier");
                    tys2.iter().map(|t| Some(*fm.add_local(*t))).collect()
                }
                1 => {
                    let mut fm = m.functions.get_fn_modifier(FunctionID(fid)).expect("modifier");
                    fm.add_locals(&tys2);
                    tys2.iter().map(|_| None).collect()
                }
                2 => {
                    let lf = m.functions.unwrap_local(FunctionID(fid));
                    tys2.iter().map(|t| Some(*lf.add_local(*t))).collect()
                }
                _ => {
                    let mut it = ModuleIterator::new(m, &vec![]);
                    use wirm::iterator::iterator_trait::Iterator as WI;
                    // walk to the target function
                    loop {
                        if let (Location::Module { func_idx, .. }, _) = it.curr_loc() {
                            if *func_idx == fid {
                                break;
                            }
                        }
                        if it.next().is_none() {
                            panic!("iterator never reached FunctionID({})", fid);
                        }
                    }
                    tys2.iter().map(|t| Some(*it.add_local(*t))).collect()
                }
            }
        });
        let got = match res {
            Ok(g) => g,
            Err(p) => return Err((path_name.into(), p)),
        };
        self.model.log.push(format!(
            "{} on FunctionID({}) = {} types [{}]",
            path_name,
            fid,
            e.ident,
            tys.iter().map(|d| dt_str(*d)).collect::<Vec<_>>().join(",")
        ));
        for (k, g) in got.iter().enumerate() {
            let want = nparams + ncur + k as u32;
            if let Some(g) = g {
                if *g != want {
                    self.model.flat.insert(
                        format!("~iderror[{}]", self.model.flat.len()),
                        format!("{} returned LocalID({}) but the function has {} params and {} locals declared before it", path_name, g, nparams, ncur + k as u32),
                    );
                }
            }
        }
        let mut all = if cur.is_empty() { vec![] } else { split_types(&cur) };
        all.extend(tys.iter().map(|d| dt_str(*d)));
        self.model.flat.insert(key, all.join(","));
        Ok(true)
    }
}

/// split "i32,(ref null (module 6)),f32" at top-level commas
fn split_types(s: &str) -> Vec<String> {
    let mut out = vec![];
    let mut cur = String::new();
    let mut depth = 0;
    for c in s.chars() {
        match c {
            '(' => {
                depth += 1;
                cur.push(c)
            }
            ')' => {
                depth -= 1;
                cur.push(c)
            }
            ',' if depth == 0 => out.push(std::mem::take(&mut cur)),
            _ => cur.push(c),
        }
    }
    if !cur.is_empty() {
        out.push(cur);
    }
    out
}

/// Evaluate an outcome: fills violations into `out`. `prop` only labels the details.
pub fn judge(
    g: &GenModule,
    o: &Outcome,
    out: &mut CaseOut,
    want_names: bool,
    only_names: bool,
    min_site_kinds: usize,
    focus: &dyn Fn(&SiteDiff) -> bool,
) {
    let hist = json!(o.model.log);
    if let Some((what, p)) = &o.call_panic {
        out.violate(
            format!("legal-call-{}:{}", what, p.sig()),
            json!({"history": hist, "panic": p.json(), "base_wat": crate::props::c01::text_of(&g.bytes)}),
        );
        return;
    }
    for (k, v) in o.model.flat.iter().filter(|(k, _)| k.starts_with("~iderror[")) {
        let _ = k;
        out.violate("wrong-id-returned".to_string(), json!({"history": hist, "what": v}));
    }
    let must_fail = !o.model.must_fail.is_empty();
    match &o.encoded {
        Err(p) => {
            if must_fail {
                out.ob("failed-loudly-as-required");
                out.nontrivial = true;
            } else {
                out.violate(
                    format!("encode-{}", p.sig()),
                    json!({"history": hist, "panic": p.json(), "base_wat": crate::props::c01::text_of(&g.bytes)}),
                );
            }
        }
        Ok(bytes) => {
            let raw = match sym::decode(bytes) {
                Ok(r) => r,
                Err(e) => {
                    out.violate("output-undecodable".to_string(), json!({"history": hist, "error": e}));
                    return;
                }
            };
            let id = sym::idents(&raw);
            let (obs, obs_raw) = observed_forms(&raw, &id);
            if must_fail {
                // an output although a live reference designates a deleted entity: what does the site designate now?
                let site = o.model.must_fail[0].clone();
                let key = site.split(" -> ").next().unwrap_or("").to_string();
                let now = obs.get(&key).cloned();
                // accepted: deleted start function may be dropped
                if key == "start" && now.is_none() && o.model.must_fail.iter().all(|s| s.starts_with("start ")) {
                    out.ob("deleted-start-dropped(accepted)");
                } else {
                    out.violate(
                        format!("dangling-emitted:{}", site_class_of(&key, now.as_deref().unwrap_or(""))),
                        json!({"history": hist, "dangling_sites": o.model.must_fail, "site_now": now,
                               "base_wat": crate::props::c01::text_of(&g.bytes)}),
                    );
                }
                return;
            }
            let diffs = compare(&o.model, &obs, &obs_raw, want_names, only_names);
            let mut seen = BTreeSet::new();
            for d in diffs.iter().filter(|d| focus(d)) {
                let sig = format!("{}:{}", d.class, d.mode);
                if seen.insert(sig.clone()) && seen.len() <= 4 {
                    out.violate(
                        sig,
                        json!({"history": hist, "site": d.site, "expected": d.expected, "observed": d.observed,
                               "base_wat": crate::props::c01::text_of(&g.bytes)}),
                    );
                }
            }
            if o.model.novalidate {
                out.ob("not-validated(global atomics injected)");
            } else if !only_names {
                if let Err(e) = sym::validate(bytes) {
                    // an invalid output that is explained by a binding difference is already reported above
                    if diffs.is_empty() {
                        out.violate(
                            format!("invalid-output:{}", crate::runner::norm_msg(e.split(" (at offset").next().unwrap_or(&e))),
                            json!({"history": hist, "validator": e, "base_wat": crate::props::c01::text_of(&g.bytes)}),
                        );
                    } else {
                        out.ob("invalid-output-explained-by-binding-difference");
                    }
                } else {
                    out.ob("outputs_validated");
                }
            }
            // non-triviality: some surviving entity moved, and enough kinds of sites reference a moved entity
            let mut moved: Vec<String> = vec![];
            for (mm, space) in [(&o.model.funcs, &id.funcs), (&o.model.globals, &id.globals), (&o.model.mems, &id.mems)] {
                for (cid, e) in mm.iter() {
                    if e.alive {
                        if let Some(pos) = space.iter().position(|x| *x == e.ident) {
                            if pos as u32 != *cid {
                                moved.push(e.ident.clone());
                            }
                        }
                    }
                }
            }
            let exp = o.model.expected();
            let mut kinds = BTreeSet::new();
            for (k, v) in &exp {
                if k.starts_with("name.") {
                    continue;
                }
                if moved.iter().any(|mv| has_token(v, mv)) {
                    kinds.insert(site_class_of(k, v));
                }
            }
            out.obn("sites_compared", exp.len() as u64);
            out.obn("moved_entities", moved.len() as u64);
            for k in &kinds {
                out.ob(format!("site-kind-referencing-moved:{}", k));
            }
            out.nontrivial = !moved.is_empty() && kinds.len() >= min_site_kinds;
        }
    }
}

pub fn history_sample(g: &GenModule, o: &Outcome) -> J {
    json!({"base_profile": g.profile, "base_wat_head": crate::props::c01::text_of(&g.bytes).lines().take(30).collect::<Vec<_>>().join("\n"),
           "history": o.model.log, "must_fail": o.model.must_fail})
}
