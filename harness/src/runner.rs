//! P — process runner: sharding over child processes, panic capture, watchdogs,
//! evidence files, known-finding classification, replay files.

use serde_json::{json, Map, Value};
use std::cell::RefCell;
use std::collections::{BTreeMap, BTreeSet, HashSet};
use std::io::Write;
use std::panic::{self, AssertUnwindSafe};
use std::process::{Command, Stdio};
use std::time::{Duration, Instant};

#[derive(Clone, Copy, Debug, PartialEq, Eq)]
pub enum Tier {
    Quick,
    Thorough,
}
impl Tier {
    pub fn name(self) -> &'static str {
        match self {
            Tier::Quick => "quick",
            Tier::Thorough => "thorough",
        }
    }
    pub fn parse(s: &str) -> Tier {
        if s == "thorough" {
            Tier::Thorough
        } else {
            Tier::Quick
        }
    }
}

#[derive(Clone, Debug)]
pub struct Violation {
    pub sig: String,
    pub detail: Value,
}

#[derive(Default)]
pub struct CaseOut {
    /// fingerprint of the case (base bytes + history/plan)
    pub fp: u64,
    pub nontrivial: bool,
    pub violations: Vec<Violation>,
    pub inconclusive: Option<String>,
    /// what the monitor observed: (key, count)
    pub obs: Vec<(String, u64)>,
    pub sample: Option<Value>,
}
impl CaseOut {
    pub fn ob(&mut self, k: impl Into<String>) {
        self.obs.push((k.into(), 1));
    }
    pub fn obn(&mut self, k: impl Into<String>, n: u64) {
        self.obs.push((k.into(), n));
    }
    pub fn violate(&mut self, sig: impl Into<String>, detail: Value) {
        self.violations.push(Violation { sig: sig.into(), detail });
    }
}

pub trait Prop: Sync {
    fn id(&self) -> &'static str;
    /// number of cases for a tier (upper bound; a time cap may stop earlier)
    fn cases(&self, tier: Tier) -> u64;
    /// run one case; must be deterministic in (seed, idx)
    fn run_case(&self, seed: u64, idx: u64, want_sample: bool) -> CaseOut;
    fn rule(&self) -> String;
    fn assumptions(&self) -> Vec<String>;
    /// hook counters of the anchored mechanisms: if every one of them is zero after the
    /// run the verdict is "inconclusive" (harness error), never "held".
    fn anchors(&self) -> Vec<&'static str> {
        vec![]
    }
    /// wall-clock cap per worker in seconds (bounds the run; never a verdict)
    fn time_cap(&self, tier: Tier) -> u64 {
        match tier {
            Tier::Quick => 60,
            Tier::Thorough => 900,
        }
    }
    /// true when every case index is an element of a finite enumerated space that is
    /// covered completely by `cases(tier)`
    fn exhaustive(&self, _tier: Tier) -> bool {
        false
    }
    /// run in the parent after all workers finished (cross-process oracles, e.g. C04)
    fn post(&self, _seed: u64, _tier: Tier, _merged: &mut Merged) {}
    /// run a pinned witness of a known finding. Default: {"seed":s,"idx":i} = ordinary case.
    fn run_witness(&self, w: &Value) -> Option<CaseOut> {
        match (w["seed"].as_u64(), w["idx"].as_u64()) {
            (Some(s), Some(i)) => Some(self.run_case(s, i, false)),
            _ => None,
        }
    }
    /// extra keys for coverage
    fn extra_coverage(&self, _tier: Tier) -> Map<String, Value> {
        Map::new()
    }
}

// ------------------------------------------------------------------------------------
// panic capture

#[derive(Clone, Debug, Default)]
pub struct PanicInfo {
    pub file: String,
    pub line: u32,
    pub msg: String,
}
thread_local! {
    static LAST_PANIC: RefCell<Option<PanicInfo>> = const { RefCell::new(None) };
}

pub fn install_panic_hook() {
    panic::set_hook(Box::new(|info| {
        let (file, line) = info
            .location()
            .map(|l| (l.file().to_string(), l.line()))
            .unwrap_or_default();
        let msg = if let Some(s) = info.payload().downcast_ref::<&str>() {
            s.to_string()
        } else if let Some(s) = info.payload().downcast_ref::<String>() {
            s.clone()
        } else {
            "<non-string panic>".to_string()
        };
        LAST_PANIC.with(|p| *p.borrow_mut() = Some(PanicInfo { file, line, msg }));
    }));
}

/// Message with digits / hex / quoted payloads normalised so signatures are stable.
pub fn norm_msg(m: &str) -> String {
    let mut out = String::new();
    let cs: Vec<char> = m.chars().collect();
    let mut i = 0;
    while i < cs.len() && out.chars().count() < 110 {
        let c = cs[i];
        if c == '0' && i + 1 < cs.len() && cs[i + 1] == 'x' {
            // hex literal
            i += 2;
            while i < cs.len() && cs[i].is_ascii_hexdigit() {
                i += 1;
            }
            out.push('#');
            continue;
        }
        if c.is_ascii_digit() {
            while i < cs.len() && cs[i].is_ascii_digit() {
                i += 1;
            }
            out.push('#');
            continue;
        }
        out.push(if c == '\n' { ' ' } else { c });
        i += 1;
    }
    out
}

pub fn short_file(f: &str) -> String {
    if let Some(i) = f.find("/repo/") {
        return f[i + 6..].to_string();
    }
    if let Some(i) = f.find("registry/src/") {
        let rest = &f[i + 13..];
        if let Some(j) = rest.find('/') {
            return format!("dep:{}", &rest[j + 1..]);
        }
    }
    f.to_string()
}

impl PanicInfo {
    pub fn sig(&self) -> String {
        format!("panic@{}:{}", short_file(&self.file), norm_msg(&self.msg))
    }
    pub fn in_repo(&self) -> bool {
        // wirm is a path dependency, so its panic locations are "src/..." relative or /repo/...
        self.file.contains("/repo/") || self.file.starts_with("src/")
    }
    pub fn json(&self) -> Value {
        json!({"file": self.file, "line": self.line, "msg": self.msg})
    }
}

/// Run `f`, catching a panic. Returns Err(info) on panic.
pub fn catch<T>(f: impl FnOnce() -> T) -> Result<T, PanicInfo> {
    LAST_PANIC.with(|p| *p.borrow_mut() = None);
    match panic::catch_unwind(AssertUnwindSafe(f)) {
        Ok(v) => Ok(v),
        Err(_) => Err(LAST_PANIC.with(|p| p.borrow_mut().take()).unwrap_or_default()),
    }
}

// ------------------------------------------------------------------------------------
// `log` facade sink (C22 watches for "BUG:" records)

pub struct LogSink;
thread_local! {
    pub static LOG_RECORDS: RefCell<Vec<(log::Level, String)>> = const { RefCell::new(Vec::new()) };
}
impl log::Log for LogSink {
    fn enabled(&self, m: &log::Metadata) -> bool {
        m.level() <= log::Level::Warn
    }
    fn log(&self, r: &log::Record) {
        if r.level() <= log::Level::Warn {
            LOG_RECORDS.with(|l| {
                let mut l = l.borrow_mut();
                if l.len() < 10000 {
                    l.push((r.level(), format!("{}", r.args())));
                }
            });
        }
    }
    fn flush(&self) {}
}
static SINK: LogSink = LogSink;
pub fn install_log_sink() {
    let _ = log::set_logger(&SINK);
    log::set_max_level(log::LevelFilter::Warn);
}
pub fn take_logs() -> Vec<(log::Level, String)> {
    LOG_RECORDS.with(|l| std::mem::take(&mut *l.borrow_mut()))
}

// ------------------------------------------------------------------------------------
// hook counters

pub fn hook_hits() -> BTreeMap<String, u64> {
    let mut m = BTreeMap::new();
    #[cfg(wirm_verif)]
    {
        for (k, v) in wirm::verif_hooks::hits() {
            m.insert(k.to_string(), v);
        }
    }
    m
}

// ------------------------------------------------------------------------------------
// merged results

#[derive(Default)]
pub struct Merged {
    pub evaluations: u64,
    pub nontrivial: HashSet<u64>,
    pub obs: BTreeMap<String, u64>,
    pub inconclusive: BTreeMap<String, u64>,
    pub hooks: BTreeMap<String, u64>,
    pub samples: Vec<Value>,
    /// (idx, sig, detail)
    pub violations: Vec<(u64, String, Value)>,
    pub stopped_early: u64,
    pub harness_errors: Vec<String>,
    pub extra: Map<String, Value>,
    pub sig_counts: BTreeMap<String, u64>,
}

fn verif_dir() -> String {
    std::env::var("VERIF_DIR").unwrap_or_else(|_| "/verif".to_string())
}

/// number of cases of a run; VERIF_MAX_CASES caps it (debugging / calibration only)
pub fn cases_of(prop: &dyn Prop, tier: Tier) -> u64 {
    let n = prop.cases(tier);
    match std::env::var("VERIF_MAX_CASES").ok().and_then(|s| s.parse::<u64>().ok()) {
        Some(c) => n.min(c),
        None => n,
    }
}

/// Worker: runs shard `shard` of `nshards`, writes a JSON summary to `out_path`.
pub fn worker(
    prop: &dyn Prop,
    tier: Tier,
    seed: u64,
    shard: u64,
    nshards: u64,
    out_path: &str,
    skip: &[u64],
) {
    install_panic_hook();
    install_log_sink();
    std::env::set_var("VERIF_TIER_CUR", tier.name());
    let n = cases_of(prop, tier);
    let cap = Duration::from_secs(prop.time_cap(tier));
    let t0 = Instant::now();
    let mut m = Merged::default();
    let prog_path = format!("{}.prog", out_path);
    let mut idx = shard;
    let mut want_samples = 2usize;
    let mut sig_counts: BTreeMap<String, u64> = BTreeMap::new();
    while idx < n {
        if t0.elapsed() > cap {
            m.stopped_early = n.saturating_sub(idx) / nshards.max(1);
            break;
        }
        if skip.contains(&idx) {
            idx += nshards;
            continue;
        }
        let _ = std::fs::write(&prog_path, format!("{}", idx));
        let want = want_samples > 0;
        let r = catch(|| prop.run_case(seed, idx, want));
        let _ = take_logs();
        match r {
            Ok(out) => {
                m.evaluations += 1;
                if let Some(r) = &out.inconclusive {
                    *m.inconclusive.entry(r.clone()).or_insert(0) += 1;
                } else if out.nontrivial {
                    m.nontrivial.insert(out.fp);
                }
                for (k, v) in out.obs {
                    *m.obs.entry(k).or_insert(0) += v;
                }
                if want && out.inconclusive.is_none() && out.nontrivial {
                    if let Some(s) = out.sample {
                        m.samples.push(s);
                        want_samples -= 1;
                    }
                }
                for v in out.violations {
                    let c = sig_counts.entry(v.sig.clone()).or_insert(0u64);
                    *c += 1;
                    if *c <= 2 {
                        m.violations.push((idx, v.sig, v.detail));
                    }
                }
            }
            Err(p) => {
                m.evaluations += 1;
                if p.in_repo() || p.file.contains("registry/src") {
                    m.violations.push((
                        idx,
                        format!("uncaught-{}", p.sig()),
                        json!({"panic": p.json(), "note": "panic escaped the monitor's own classification"}),
                    ));
                } else {
                    m.harness_errors
                        .push(format!("case {} harness panic {}:{} {}", idx, p.file, p.line, p.msg));
                }
            }
        }
        idx += nshards;
    }
    m.hooks = hook_hits();
    let v = json!({
        "evaluations": m.evaluations,
        "nontrivial": m.nontrivial.iter().collect::<Vec<_>>(),
        "obs": m.obs,
        "inconclusive": m.inconclusive,
        "hooks": m.hooks,
        "samples": m.samples,
        "violations": m.violations.iter().map(|(i,s,d)| json!({"idx": i, "sig": s, "detail": d})).collect::<Vec<_>>(),
        "stopped_early": m.stopped_early,
        "harness_errors": m.harness_errors,
        "sig_counts": sig_counts,
    });
    std::fs::write(out_path, serde_json::to_vec(&v).unwrap()).expect("write worker result");
    let _ = std::fs::remove_file(&prog_path);
}

fn merge_into(m: &mut Merged, v: &Value) {
    m.evaluations += v["evaluations"].as_u64().unwrap_or(0);
    for f in v["nontrivial"].as_array().into_iter().flatten() {
        if let Some(x) = f.as_u64() {
            m.nontrivial.insert(x);
        }
    }
    for (name, dst) in [
        ("obs", &mut m.obs),
        ("inconclusive", &mut m.inconclusive),
        ("hooks", &mut m.hooks),
        ("sig_counts", &mut m.sig_counts),
    ] {
        if let Some(o) = v[name].as_object() {
            for (k, n) in o {
                *dst.entry(k.clone()).or_insert(0) += n.as_u64().unwrap_or(0);
            }
        }
    }
    for s in v["samples"].as_array().into_iter().flatten() {
        if m.samples.len() < 4 {
            m.samples.push(s.clone());
        }
    }
    for x in v["violations"].as_array().into_iter().flatten() {
        m.violations.push((
            x["idx"].as_u64().unwrap_or(0),
            x["sig"].as_str().unwrap_or("").to_string(),
            x["detail"].clone(),
        ));
    }
    m.stopped_early += v["stopped_early"].as_u64().unwrap_or(0);
    for e in v["harness_errors"].as_array().into_iter().flatten() {
        m.harness_errors.push(e.as_str().unwrap_or("").to_string());
    }
}

pub struct Finding {
    pub property: String,
    pub signature: String,
    pub status: String, // open | fixed
    pub what: String,
    pub witness: Value,
    pub commit: Option<String>,
}

pub fn load_findings() -> Vec<Finding> {
    let p = format!("{}/known_findings.json", verif_dir());
    let Ok(s) = std::fs::read_to_string(&p) else { return vec![] };
    let Ok(v) = serde_json::from_str::<Value>(&s) else {
        eprintln!("warning: cannot parse {}", p);
        return vec![];
    };
    let mut out = vec![];
    for f in v["findings"].as_array().into_iter().flatten() {
        out.push(Finding {
            property: f["property"].as_str().unwrap_or("").into(),
            signature: f["signature"].as_str().unwrap_or("").into(),
            status: f["status"].as_str().unwrap_or("open").into(),
            what: f["what"].as_str().unwrap_or("").into(),
            witness: f["witness"].clone(),
            commit: f["commit"].as_str().map(|s| s.to_string()),
        });
    }
    out
}

/// Parent: fork workers, merge, classify, write evidence. Returns the exit code.
pub fn run(prop: &dyn Prop, tier: Tier, seed: u64) -> i32 {
    let t0 = Instant::now();
    let id = prop.id();
    let n = cases_of(prop, tier);
    let ncpu: u64 = std::env::var("VERIF_JOBS").ok().and_then(|s| s.parse().ok()).unwrap_or(16);
    let nshards = ncpu.min(n.max(1));
    let exe = std::env::current_exe().expect("current_exe");
    let tmp = format!("{}/out/run/{}-{}-{}", verif_dir(), id, tier.name(), std::process::id());
    let _ = std::fs::create_dir_all(&tmp);
    let mut m = Merged::default();
    let watchdog = Duration::from_secs(prop.time_cap(tier) * 3 + 120);

    // launch all shards
    let mut pending: Vec<(u64, Vec<u64>, std::process::Child, String, u32)> = vec![];
    let spawn = |shard: u64, skip: &[u64], attempt: u32| {
        let out = format!("{}/shard-{}-{}.json", tmp, shard, attempt);
        let child = Command::new(&exe)
            .arg("worker")
            .arg(id)
            .arg(tier.name())
            .arg(seed.to_string())
            .arg(shard.to_string())
            .arg(nshards.to_string())
            .arg(&out)
            .arg(skip.iter().map(|s| s.to_string()).collect::<Vec<_>>().join(","))
            .stdin(Stdio::null())
            .stdout(Stdio::null())
            .stderr(Stdio::null())
            .spawn()
            .expect("spawn worker");
        (child, out)
    };
    for shard in 0..nshards {
        let (c, o) = spawn(shard, &[], 0);
        pending.push((shard, vec![], c, o, 0));
    }
    let mut crash_cases: Vec<(u64, String)> = vec![];
    while let Some((shard, skip, mut child, out, attempt)) = pending.pop() {
        // wait with watchdog
        let start = Instant::now();
        let status = loop {
            match child.try_wait() {
                Ok(Some(st)) => break Some(st),
                Ok(None) => {
                    if start.elapsed() > watchdog {
                        let _ = child.kill();
                        let _ = child.wait();
                        break None;
                    }
                    std::thread::sleep(Duration::from_millis(20));
                }
                Err(_) => break None,
            }
        };
        match status {
            Some(st) if st.success() => match std::fs::read(&out).ok().and_then(|b| serde_json::from_slice::<Value>(&b).ok()) {
                Some(v) => merge_into(&mut m, &v),
                None => m.harness_errors.push(format!("shard {} produced no readable result", shard)),
            },
            Some(st) => {
                // abnormal exit: find the culprit case and re-run the shard without it
                let prog = std::fs::read_to_string(format!("{}.prog", out)).ok().and_then(|s| s.trim().parse::<u64>().ok());
                use std::os::unix::process::ExitStatusExt;
                let how = match st.signal() {
                    Some(sig) => format!("signal:{}", sig),
                    None => format!("exit:{}", st.code().unwrap_or(-1)),
                };
                match prog {
                    Some(idx) if attempt < 8 => {
                        crash_cases.push((idx, how));
                        let mut skip2 = skip.clone();
                        skip2.push(idx);
                        let (c, o) = spawn(shard, &skip2, attempt + 1);
                        pending.push((shard, skip2, c, o, attempt + 1));
                    }
                    _ => m.harness_errors.push(format!("shard {} died ({}) with no progress marker", shard, how)),
                }
            }
            None => {
                *m.inconclusive.entry("watchdog: shard killed".into()).or_insert(0) += 1;
            }
        }
    }
    for (idx, how) in crash_cases {
        m.evaluations += 1;
        m.violations.push((idx, format!("abort:{}", how), json!({"note": "worker process died while running this case", "how": how})));
    }
    prop.post(seed, tier, &mut m);
    let _ = std::fs::remove_dir_all(&tmp);
    // scratch files of emit_wasm (kept across the emissions of one worker on purpose)
    if let Ok(rd) = std::fs::read_dir(format!("{}/out/run", verif_dir())) {
        for e in rd.flatten() {
            if e.file_name().to_string_lossy().starts_with("emit-") {
                let _ = std::fs::remove_file(e.path());
            }
        }
    }
    finish(prop, tier, seed, m, t0)
}

pub enum WitnessRun {
    Sigs(Vec<String>),
    NotRunnable,
    Died(String),
}

/// child side: `harness witness1 <prop> <file with the witness json>` prints `SIG <signature>` per violation, `NOTRUNNABLE`, then `DONE`
pub fn witness_child(prop: &dyn Prop, path: &str) {
    install_panic_hook();
    install_log_sink();
    let w: Value = std::fs::read(path).ok().and_then(|b| serde_json::from_slice(&b).ok()).unwrap_or(Value::Null);
    match catch(|| prop.run_witness(&w)) {
        Ok(Some(o)) => {
            for v in o.violations {
                println!("SIG {}", v.sig.replace('\n', " "));
            }
        }
        Ok(None) => println!("NOTRUNNABLE"),
        Err(p) => println!("SIG uncaught-{}", p.sig().replace('\n', " ")),
    }
    println!("DONE");
}

fn run_witness_in_child(id: &str, witness: &Value) -> WitnessRun {
    let dir = format!("{}/out/run", verif_dir());
    let _ = std::fs::create_dir_all(&dir);
    let path = format!("{}/witness-{}-{}.json", dir, id, std::process::id());
    if std::fs::write(&path, serde_json::to_vec(witness).unwrap_or_default()).is_err() {
        return WitnessRun::NotRunnable;
    }
    let exe = std::env::current_exe().expect("current_exe");
    let out = Command::new(&exe).arg("witness1").arg(id).arg(&path).stdin(Stdio::null()).stderr(Stdio::null()).output();
    let _ = std::fs::remove_file(&path);
    match out {
        Ok(o) => {
            let text = String::from_utf8_lossy(&o.stdout).to_string();
            if o.status.success() && text.contains("DONE") {
                if text.lines().any(|l| l == "NOTRUNNABLE") {
                    return WitnessRun::NotRunnable;
                }
                WitnessRun::Sigs(text.lines().filter_map(|l| l.strip_prefix("SIG ").map(|s| s.to_string())).collect())
            } else {
                use std::os::unix::process::ExitStatusExt;
                WitnessRun::Died(match o.status.signal() {
                    Some(s) => format!("signal:{}", s),
                    None => format!("exit:{}", o.status.code().unwrap_or(-1)),
                })
            }
        }
        Err(_) => WitnessRun::NotRunnable,
    }
}

/// Classify, print lines, write evidence.
pub fn finish(prop: &dyn Prop, tier: Tier, seed: u64, mut m: Merged, t0: Instant) -> i32 {
    let id = prop.id();
    std::env::set_var("VERIF_TIER_CUR", tier.name());
    let findings = load_findings();
    let open: Vec<&Finding> = findings.iter().filter(|f| f.property == id && f.status == "open").collect();
    let fixed: Vec<&Finding> = findings.iter().filter(|f| f.property == id && f.status == "fixed").collect();

    // pinned witnesses (run in-process under catch; they are ordinary cases)
    install_panic_hook();
    install_log_sink();
    let mut witness_state: BTreeMap<String, String> = BTreeMap::new();
    for f in open.iter().chain(fixed.iter()) {
        if f.witness.is_null() {
            continue;
        }
        // {"file": "findings/..json"} = witness stored in its own file
        let witness: Value = match f.witness["file"].as_str() {
            Some(path) => std::fs::read(format!("{}/{}", verif_dir(), path))
                .ok()
                .and_then(|b| serde_json::from_slice(&b).ok())
                .unwrap_or(Value::Null),
            None => f.witness.clone(),
        };
        // each witness runs in a child process: a witness that makes the library abort (stack overflow, allocation failure) must
        // not take the parent - and with it the VIOLATION line - down
        let sigs: Vec<String> = match run_witness_in_child(id, &witness) {
            WitnessRun::Sigs(s) => s,
            WitnessRun::NotRunnable => {
                m.harness_errors.push(format!("witness of {} / {} is not runnable: {}", id, f.signature, f.witness));
                continue;
            }
            WitnessRun::Died(how) => vec![format!("abort:{}", how)],
        };
        m.evaluations += 1;
        let wi = f.witness["idx"].as_u64().unwrap_or(0);
        if f.status == "open" {
            let hit = sigs.iter().any(|s| *s == f.signature);
            witness_state.insert(f.signature.clone(), if hit { "reproduced".into() } else { "not-reproduced".into() });
            for s in sigs {
                m.violations.push((wi, s, json!({"witness_of": f.signature, "witness": f.witness})));
            }
        } else {
            // fixed entries suppress nothing: any violation from the witness is reported
            for s in sigs {
                m.violations.push((wi, s, json!({"regression_witness_of": f.signature, "witness": f.witness})));
            }
        }
    }

    let open_sigs: BTreeSet<&str> = open.iter().map(|f| f.signature.as_str()).collect();
    let mut known_hits: BTreeMap<String, u64> = BTreeMap::new();
    let mut new_by_sig: BTreeMap<String, (u64, Value, u64)> = BTreeMap::new();
    for (idx, sig, detail) in &m.violations {
        // occurrences: prefer the exact per-signature counters of the workers
        let n = 1;
        if open_sigs.contains(sig.as_str()) {
            *known_hits.entry(sig.clone()).or_insert(0) += n;
        } else {
            let e = new_by_sig.entry(sig.clone()).or_insert((*idx, detail.clone(), 0));
            e.2 += n;
        }
    }
    for (sig, n) in &m.sig_counts {
        if let Some(k) = known_hits.get_mut(sig) {
            *k = (*k).max(*n);
        }
        if let Some(e) = new_by_sig.get_mut(sig) {
            e.2 = e.2.max(*n);
        }
    }
    for f in &open {
        let hits = known_hits.get(&f.signature).copied().unwrap_or(0);
        if hits > 0 {
            println!("KNOWN-FINDING: property={} {} :: {} (hits this run: {})", id, f.signature, f.what, hits);
        } else {
            eprintln!(
                "note: open finding {} / {} was not observed in this run (witness: {})",
                id,
                f.signature,
                witness_state.get(&f.signature).map(|s| s.as_str()).unwrap_or("none")
            );
        }
    }
    let replay_dir = format!("{}/out/replays", verif_dir());
    let _ = std::fs::create_dir_all(&replay_dir);
    let mut new_violation_count = 0u64;
    for (sig, (idx, detail, count)) in &new_by_sig {
        new_violation_count += count;
        let h = crate::rng::fnv(sig.as_bytes());
        let path = format!("{}/{}-{:016x}.json", replay_dir, id, h);
        let wseed = detail.get("seed").and_then(|s| s.as_u64()).unwrap_or(seed);
        let rep = json!({
            "property": id, "seed": wseed, "idx": idx, "tier": tier.name(),
            "signature": sig, "occurrences": count, "detail": detail,
            "replay": format!("./check {} --replay {}", id, path),
        });
        let _ = std::fs::write(&path, serde_json::to_vec_pretty(&rep).unwrap());
        println!("VIOLATION property={} replay={}", id, path);
        println!("  signature: {} ({} occurrence(s), first at case {})", sig, count, idx);
    }

    // anchors
    let anchors = prop.anchors();
    let anchor_hits: u64 = anchors.iter().map(|a| m.hooks.get(*a).copied().unwrap_or(0)).sum();
    let mut harness_fail = false;
    if !anchors.is_empty() && anchor_hits == 0 && cfg!(wirm_verif) {
        m.harness_errors.push(format!("anchored mechanisms never reached: {:?}", anchors));
        harness_fail = true;
    }
    if m.evaluations == 0 || m.nontrivial.len() < 2 {
        m.harness_errors.push(format!(
            "observed too little: evaluations={} distinct_nontrivial={}",
            m.evaluations,
            m.nontrivial.len()
        ));
        harness_fail = true;
    }
    for e in &m.harness_errors {
        eprintln!("harness: {}", e);
    }
    let inconclusive_total: u64 = m.inconclusive.values().sum();

    let mut coverage = Map::new();
    coverage.insert("evaluations".into(), json!(m.evaluations));
    coverage.insert("distinct_nontrivial".into(), json!(m.nontrivial.len()));
    coverage.insert("rule".into(), json!(prop.rule()));
    coverage.insert("samples".into(), json!(if m.samples.is_empty() { vec![json!("no non-trivial sample captured")] } else { m.samples.clone() }));
    coverage.insert("exhaustive".into(), json!(prop.exhaustive(tier) && m.stopped_early == 0));
    coverage.insert("observed".into(), json!(m.obs));
    coverage.insert("mechanism_hits".into(), json!(m.hooks));
    coverage.insert("anchors".into(), json!(anchors));
    coverage.insert("inconclusive".into(), json!({"total": inconclusive_total, "by_reason": m.inconclusive}));
    coverage.insert("known_hits".into(), json!(known_hits));
    coverage.insert("new_violation_signatures".into(), json!(new_by_sig.keys().collect::<Vec<_>>()));
    coverage.insert("cases_not_run_time_cap".into(), json!(m.stopped_early));
    coverage.insert("harness_errors".into(), json!(m.harness_errors));
    coverage.insert(
        "verdict".into(),
        json!(if new_violation_count > 0 {
            "violated"
        } else if harness_fail {
            "inconclusive"
        } else {
            "held on what was observed"
        }),
    );
    for (k, v) in prop.extra_coverage(tier) {
        coverage.insert(k, v);
    }
    for (k, v) in std::mem::take(&mut m.extra) {
        coverage.insert(k, v);
    }
    let ev = json!({
        "property_id": id,
        "tier": tier.name(),
        "seed": seed,
        "level": "exploration",
        "coverage": coverage,
        "assumptions": prop.assumptions(),
        "wall_s": t0.elapsed().as_secs_f64(),
        "violations": new_violation_count,
    });
    let evdir = format!("{}/evidence", verif_dir());
    let _ = std::fs::create_dir_all(&evdir);
    let evpath = format!("{}/{}.json", evdir, id);
    let mut f = std::fs::File::create(&evpath).expect("evidence file");
    f.write_all(&serde_json::to_vec_pretty(&ev).unwrap()).unwrap();
    eprintln!(
        "{} {} seed={} evaluations={} distinct_nontrivial={} inconclusive={} known_hits={} new_violations={} wall={:.1}s",
        id,
        tier.name(),
        seed,
        m.evaluations,
        m.nontrivial.len(),
        inconclusive_total,
        known_hits.values().sum::<u64>(),
        new_violation_count,
        t0.elapsed().as_secs_f64()
    );
    if new_violation_count > 0 {
        1
    } else if harness_fail {
        2
    } else {
        0
    }
}

/// Re-run one recorded case and print what the monitor says.
pub fn replay(prop: &dyn Prop, path: &str) -> i32 {
    install_panic_hook();
    install_log_sink();
    let v: Value = match std::fs::read(path).ok().and_then(|b| serde_json::from_slice(&b).ok()) {
        Some(v) => v,
        None => {
            eprintln!("cannot read replay file {}", path);
            return 2;
        }
    };
    let seed = v["seed"].as_u64().unwrap_or(1);
    let idx = v["idx"].as_u64().unwrap_or(0);
    // a replay file may carry an explicit, generator-independent witness (top level "witness", or the one the monitor
    // stored in the violation detail); it is preferred over (seed, idx), which depends on the generators' current state
    let explicit = if v["witness"].is_object() { Some(v["witness"].clone()) } else if v["detail"]["explicit_witness"].is_object() { Some(v["detail"]["explicit_witness"].clone()) } else { None };
    let r = catch(|| match &explicit {
        Some(w) => prop.run_witness(w).unwrap_or_else(|| prop.run_case(seed, idx, true)),
        None => prop.run_case(seed, idx, true),
    });
    match r {
        Ok(o) => {
            println!("case seed={} idx={} nontrivial={} inconclusive={:?}", seed, idx, o.nontrivial, o.inconclusive);
            if let Some(s) = &o.sample {
                println!("{}", serde_json::to_string_pretty(s).unwrap());
            }
            for v in &o.violations {
                println!("violation: {}\n{}", v.sig, serde_json::to_string_pretty(&v.detail).unwrap());
            }
            if o.violations.is_empty() {
                0
            } else {
                println!("VIOLATION property={} replay={}", prop.id(), path);
                1
            }
        }
        Err(p) => {
            println!("uncaught panic: {:?}", p);
            println!("VIOLATION property={} replay={}", prop.id(), path);
            1
        }
    }
}
