//! G — syntactic module generator. Builds valid modules over feature profiles with
//! wasm-encoder, keeps the ground truth (signatures, kinds, counts) and gives every
//! re-indexable entity a unique, decodable fingerprint:
//!   local function  → body starts with `i32.const (0x4000_0000 + uid); drop`
//!   imported thing  → unique (module, name)
//!   local global    → unique constant initialiser (or unique (type, init) pair)
//!   local memory    → unique `initial` page count
//!   data / element  → unique payload

use crate::rng::Rng;
use std::borrow::Cow;
use wasm_encoder as we;
use wasm_encoder::{
    BlockType, CodeSection, ConstExpr, CustomSection, DataCountSection, DataSection, ElementSection, Elements,
    EntityType, ExportKind, ExportSection, Function, FunctionSection, GlobalSection, GlobalType, HeapType,
    ImportSection, IndirectNameMap, Instruction as I, MemArg, MemorySection, MemoryType, Module, NameMap, NameSection,
    RefType, StartSection, TableSection, TableType, TagKind, TagSection, TagType, TypeSection, ValType,
};

pub const FP_BASE: u32 = 0x4000_0000;

pub const F_MV: u32 = 1;
pub const F_REF: u32 = 2;
pub const F_BULK: u32 = 4;
pub const F_SIMD: u32 = 8;
pub const F_TAIL: u32 = 16;
pub const F_GC: u32 = 32;
pub const F_EXN: u32 = 64;
pub const F_THREADS: u32 = 128;
pub const F_MEM64: u32 = 256;
pub const F_MULTIMEM: u32 = 512;

#[derive(Clone, Copy, Debug)]
pub struct Profile {
    pub name: &'static str,
    pub flags: u32,
}

pub const PROFILES: &[Profile] = &[
    Profile { name: "mvp", flags: 0 },
    Profile { name: "multi-value", flags: F_MV },
    Profile { name: "reference-types", flags: F_REF | F_BULK },
    Profile { name: "bulk-memory", flags: F_BULK },
    Profile { name: "simd", flags: F_SIMD },
    Profile { name: "tail-call", flags: F_TAIL },
    Profile { name: "gc", flags: F_GC | F_REF | F_BULK | F_MV },
    Profile { name: "exceptions", flags: F_EXN | F_REF | F_MV },
    Profile { name: "threads", flags: F_THREADS | F_BULK },
    Profile { name: "memory64", flags: F_MEM64 | F_BULK },
    Profile { name: "multi-memory", flags: F_MULTIMEM | F_BULK },
    Profile { name: "all", flags: F_MV | F_REF | F_BULK | F_SIMD | F_TAIL | F_GC | F_EXN | F_THREADS | F_MEM64 | F_MULTIMEM },
];

#[derive(Clone, Copy, Debug, PartialEq, Eq, Hash)]
pub enum VT {
    I32,
    I64,
    F32,
    F64,
    V128,
    FuncRef,
    ExternRef,
    AnyRef,
    EqRef,
    I31Ref,
    StructRef,
    ArrayRef,
    ExnRef,
    /// (ref null $t)
    RefNull(u32),
}

impl VT {
    pub fn enc(self) -> ValType {
        let abs = |ty: we::AbstractHeapType| {
            ValType::Ref(RefType { nullable: true, heap_type: HeapType::Abstract { shared: false, ty } })
        };
        match self {
            VT::I32 => ValType::I32,
            VT::I64 => ValType::I64,
            VT::F32 => ValType::F32,
            VT::F64 => ValType::F64,
            VT::V128 => ValType::V128,
            VT::FuncRef => abs(we::AbstractHeapType::Func),
            VT::ExternRef => abs(we::AbstractHeapType::Extern),
            VT::AnyRef => abs(we::AbstractHeapType::Any),
            VT::EqRef => abs(we::AbstractHeapType::Eq),
            VT::I31Ref => abs(we::AbstractHeapType::I31),
            VT::StructRef => abs(we::AbstractHeapType::Struct),
            VT::ArrayRef => abs(we::AbstractHeapType::Array),
            VT::ExnRef => abs(we::AbstractHeapType::Exn),
            VT::RefNull(t) => ValType::Ref(RefType { nullable: true, heap_type: HeapType::Concrete(t) }),
        }
    }
    pub fn heap(self) -> Option<HeapType> {
        match self.enc() {
            ValType::Ref(r) => Some(r.heap_type),
            _ => None,
        }
    }
    pub fn is_num(self) -> bool {
        matches!(self, VT::I32 | VT::I64 | VT::F32 | VT::F64 | VT::V128)
    }
}

#[derive(Clone, Debug)]
pub enum TyInfo {
    Func(Vec<VT>, Vec<VT>),
    Struct(Vec<(VT, bool)>),
    Array(VT, bool),
}

#[derive(Clone, Debug)]
pub struct GlobalInfo {
    pub ty: VT,
    pub mutable: bool,
    pub imported: bool,
}
#[derive(Clone, Debug)]
pub struct MemInfo {
    pub imported: bool,
    pub mem64: bool,
    pub shared: bool,
    pub min: u64,
}
#[derive(Clone, Debug)]
pub struct TableInfo {
    pub imported: bool,
    pub elem: VT,
    pub min: u64,
}

#[derive(Clone, Debug, Default)]
pub struct GenCfg {
    pub max_types: usize,
    pub max_imp_funcs: usize,
    pub max_funcs: usize,
    pub max_imp_globals: usize,
    pub max_globals: usize,
    pub max_imp_mems: usize,
    pub max_mems: usize,
    pub max_tables: usize,
    pub max_stmts: usize,
    pub max_elems: usize,
    pub max_datas: usize,
    pub names: bool,
    pub customs: bool,
    pub start: bool,
    /// minimum numbers (for property-specific workloads)
    pub min_funcs: usize,
    pub min_imp_funcs: usize,
    pub min_globals: usize,
    pub min_imp_globals: usize,
    /// the imported immutable i32 global that offset / initialiser expressions read may be ANY imported global, not only global 0
    pub off_global_any: bool,
    pub min_mems: usize,
    pub min_imp_mems: usize,
    /// interleave non-function imports between function imports
    pub mixed_imports: bool,
    /// make the module shape "reference heavy": every kind of reference site present
    pub ref_heavy: bool,
    /// do not use exnref as a value type (keeps the known exnref round-trip defect out of other monitors)
    pub avoid_exnref: bool,
    /// bodies do not start with the `i32.const <uid>; drop` fingerprint (workloads that identify functions by position: the
    /// first instruction of a body can then be a block / loop / if)
    pub no_fingerprint: bool,
}
impl GenCfg {
    pub fn default_for(rng: &mut Rng) -> GenCfg {
        GenCfg {
            max_types: 8,
            max_imp_funcs: 3,
            max_funcs: rng.range(1, 6),
            max_imp_globals: 2,
            off_global_any: false,
            no_fingerprint: false,
            max_globals: 4,
            max_imp_mems: 1,
            max_mems: 2,
            max_tables: 2,
            max_stmts: rng.range(2, 18),
            max_elems: 4,
            max_datas: 3,
            names: rng.chance(3, 4),
            customs: rng.chance(1, 2),
            start: rng.chance(1, 3),
            mixed_imports: true,
            ..Default::default()
        }
    }
}

#[derive(Clone, Debug, Default)]
pub struct GenModule {
    pub bytes: Vec<u8>,
    pub profile: &'static str,
    pub flags: u32,
    pub types: Vec<TyInfo>,
    pub n_imp_funcs: u32,
    /// type index per function index (imports first)
    pub func_types: Vec<u32>,
    pub func_uids: Vec<Option<u32>>,
    pub globals: Vec<GlobalInfo>,
    pub n_imp_globals: u32,
    /// index of the imported immutable i32 global used by offset / initialiser expressions
    pub off_global: Option<u32>,
    pub mems: Vec<MemInfo>,
    pub n_imp_mems: u32,
    pub tables: Vec<TableInfo>,
    pub n_tags: u32,
    pub n_elems: u32,
    pub n_datas: u32,
    pub has_start: bool,
    pub next_uid: u32,
    /// number of instructions per local function (including the final end)
    pub body_lens: Vec<usize>,
    pub section_kinds: u32,
}

impl GenModule {
    pub fn sig(&self, func: u32) -> (&[VT], &[VT]) {
        match &self.types[self.func_types[func as usize] as usize] {
            TyInfo::Func(p, r) => (p, r),
            _ => (&[], &[]),
        }
    }
    pub fn n_funcs(&self) -> u32 {
        self.func_types.len() as u32
    }
    pub fn n_local_funcs(&self) -> u32 {
        self.n_funcs() - self.n_imp_funcs
    }
}

struct Frame {
    /// label types when branching to this frame
    label: Vec<VT>,
    is_loop: bool,
}

struct FnCtx<'a> {
    g: &'a GenModule,
    flags: u32,
    params_locals: Vec<VT>,
    frames: Vec<Frame>,
    results: Vec<VT>,
    out: Vec<I<'static>>,
    depth: usize,
    this_func: u32,
    func_type_void: Option<u32>,
    struct_types: Vec<u32>,
    array_types: Vec<u32>,
}

fn has(flags: u32, f: u32) -> bool {
    flags & f != 0
}

fn const_of(rng: &mut Rng, t: VT) -> I<'static> {
    match t {
        VT::I32 => I::I32Const(rng.interesting_u32() as i32),
        VT::I64 => I::I64Const(rng.interesting_u64() as i64),
        VT::F32 => I::F32Const(we::Ieee32::from(f32::from_bits(rng.interesting_u32()))),
        VT::F64 => I::F64Const(we::Ieee64::from(f64::from_bits(rng.interesting_u64()))),
        VT::V128 => I::V128Const(((rng.next_u64() as u128) << 64 | rng.next_u64() as u128) as i128),
        other => I::RefNull(other.heap().unwrap()),
    }
}

impl<'a> FnCtx<'a> {
    fn push_val(&mut self, rng: &mut Rng, t: VT) {
        // producer: local.get / global.get / const
        let locals: Vec<u32> =
            self.params_locals.iter().enumerate().filter(|(_, lt)| **lt == t).map(|(i, _)| i as u32).collect();
        let globals: Vec<u32> =
            self.g.globals.iter().enumerate().filter(|(_, gi)| gi.ty == t).map(|(i, _)| i as u32).collect();
        let c = rng.below(4);
        if c == 0 && !locals.is_empty() {
            self.out.push(I::LocalGet(*rng.pick(&locals)));
        } else if c == 1 && !globals.is_empty() {
            self.out.push(I::GlobalGet(*rng.pick(&globals)));
        } else if t == VT::FuncRef && has(self.flags, F_REF) && rng.bool() && self.g.n_funcs() > 0 {
            self.out.push(I::RefFunc(rng.below(self.g.n_funcs() as usize) as u32));
        } else {
            self.out.push(const_of(rng, t));
        }
    }
    fn consume(&mut self, rng: &mut Rng, t: VT) {
        let locals: Vec<u32> =
            self.params_locals.iter().enumerate().filter(|(_, lt)| **lt == t).map(|(i, _)| i as u32).collect();
        let globals: Vec<u32> = self
            .g
            .globals
            .iter()
            .enumerate()
            .filter(|(_, gi)| gi.ty == t && gi.mutable)
            .map(|(i, _)| i as u32)
            .collect();
        let c = rng.below(4);
        if c == 0 && !locals.is_empty() {
            self.out.push(I::LocalSet(*rng.pick(&locals)));
        } else if c == 1 && !globals.is_empty() {
            self.out.push(I::GlobalSet(*rng.pick(&globals)));
        } else if c == 2 && !locals.is_empty() {
            self.out.push(I::LocalTee(*rng.pick(&locals)));
            self.out.push(I::Drop);
        } else {
            self.out.push(I::Drop);
        }
    }

    fn memarg(&self, rng: &mut Rng, mem: u32, max_align: u32) -> MemArg {
        MemArg {
            offset: if rng.chance(1, 4) { rng.next_u32() as u64 & 0xffff } else { rng.below(64) as u64 },
            align: rng.below(max_align as usize + 1) as u32,
            memory_index: mem,
        }
    }
    fn atomic_memarg(&self, rng: &mut Rng, mem: u32, align: u32) -> MemArg {
        MemArg { offset: rng.below(64) as u64, align, memory_index: mem }
    }
    fn addr(&mut self, rng: &mut Rng, mem: u32) {
        if self.g.mems[mem as usize].mem64 {
            self.out.push(I::I64Const(rng.below(1024) as i64));
        } else {
            self.out.push(I::I32Const(rng.below(1024) as i32));
        }
    }
    fn addr_ty(&self, mem: u32) -> VT {
        if self.g.mems[mem as usize].mem64 {
            VT::I64
        } else {
            VT::I32
        }
    }

    fn mem_stmt(&mut self, rng: &mut Rng) {
        let nm = self.g.mems.len() as u32;
        if nm == 0 {
            return;
        }
        let mem = rng.below(nm as usize) as u32;
        let simd = has(self.flags, F_SIMD);
        let threads = has(self.flags, F_THREADS);
        let bulk = has(self.flags, F_BULK);
        // family choice
        let mut fams = vec![0, 1, 2];
        if simd {
            fams.push(3);
            fams.push(4);
        }
        if threads {
            fams.push(5);
            fams.push(6);
            fams.push(7);
        }
        if bulk {
            fams.push(8);
        }
        match *rng.pick(&fams) {
            0 => {
                // plain loads
                let (ctor, ty, al): (fn(MemArg) -> I<'static>, VT, u32) = *rng.pick(&[
                    (I::I32Load as fn(MemArg) -> I<'static>, VT::I32, 2),
                    (I::I64Load, VT::I64, 3),
                    (I::F32Load, VT::F32, 2),
                    (I::F64Load, VT::F64, 3),
                    (I::I32Load8S, VT::I32, 0),
                    (I::I32Load8U, VT::I32, 0),
                    (I::I32Load16S, VT::I32, 1),
                    (I::I32Load16U, VT::I32, 1),
                    (I::I64Load8S, VT::I64, 0),
                    (I::I64Load8U, VT::I64, 0),
                    (I::I64Load16S, VT::I64, 1),
                    (I::I64Load16U, VT::I64, 1),
                    (I::I64Load32S, VT::I64, 2),
                    (I::I64Load32U, VT::I64, 2),
                ]);
                self.addr(rng, mem);
                let ma = self.memarg(rng, mem, al);
                self.out.push(ctor(ma));
                self.consume(rng, ty);
            }
            1 => {
                let (ctor, ty, al): (fn(MemArg) -> I<'static>, VT, u32) = *rng.pick(&[
                    (I::I32Store as fn(MemArg) -> I<'static>, VT::I32, 2),
                    (I::I64Store, VT::I64, 3),
                    (I::F32Store, VT::F32, 2),
                    (I::F64Store, VT::F64, 3),
                    (I::I32Store8, VT::I32, 0),
                    (I::I32Store16, VT::I32, 1),
                    (I::I64Store8, VT::I64, 0),
                    (I::I64Store16, VT::I64, 1),
                    (I::I64Store32, VT::I64, 2),
                ]);
                self.addr(rng, mem);
                self.push_val(rng, ty);
                let ma = self.memarg(rng, mem, al);
                self.out.push(ctor(ma));
            }
            2 => {
                // size / grow
                if rng.bool() {
                    self.out.push(I::MemorySize(mem));
                    let t = self.addr_ty(mem);
                    self.consume(rng, t);
                } else {
                    let t = self.addr_ty(mem);
                    self.out.push(if t == VT::I64 { I::I64Const(0) } else { I::I32Const(0) });
                    self.out.push(I::MemoryGrow(mem));
                    self.consume(rng, t);
                }
            }
            3 => {
                // simd loads / stores
                let k = rng.below(15);
                if k == 14 {
                    self.addr(rng, mem);
                    self.push_val(rng, VT::V128);
                    let ma = self.memarg(rng, mem, 4);
                    self.out.push(I::V128Store(ma));
                } else {
                    let (ctor, al): (fn(MemArg) -> I<'static>, u32) = [
                        (I::V128Load as fn(MemArg) -> I<'static>, 4),
                        (I::V128Load8x8S, 3),
                        (I::V128Load8x8U, 3),
                        (I::V128Load16x4S, 3),
                        (I::V128Load16x4U, 3),
                        (I::V128Load32x2S, 3),
                        (I::V128Load32x2U, 3),
                        (I::V128Load8Splat, 0),
                        (I::V128Load16Splat, 1),
                        (I::V128Load32Splat, 2),
                        (I::V128Load64Splat, 3),
                        (I::V128Load32Zero, 2),
                        (I::V128Load64Zero, 3),
                        (I::V128Load, 4),
                    ][k];
                    self.addr(rng, mem);
                    let ma = self.memarg(rng, mem, al);
                    self.out.push(ctor(ma));
                    self.consume(rng, VT::V128);
                }
            }
            4 => {
                // simd lane loads/stores
                let k = rng.below(8);
                let (al, lanes) = [(0, 16), (1, 8), (2, 4), (3, 2)][k % 4];
                let ma = self.memarg(rng, mem, al);
                let lane = rng.below(lanes) as u8;
                self.addr(rng, mem);
                self.push_val(rng, VT::V128);
                if k < 4 {
                    self.out.push(match k {
                        0 => I::V128Load8Lane { memarg: ma, lane },
                        1 => I::V128Load16Lane { memarg: ma, lane },
                        2 => I::V128Load32Lane { memarg: ma, lane },
                        _ => I::V128Load64Lane { memarg: ma, lane },
                    });
                    self.consume(rng, VT::V128);
                } else {
                    self.out.push(match k {
                        4 => I::V128Store8Lane { memarg: ma, lane },
                        5 => I::V128Store16Lane { memarg: ma, lane },
                        6 => I::V128Store32Lane { memarg: ma, lane },
                        _ => I::V128Store64Lane { memarg: ma, lane },
                    });
                }
            }
            5 => {
                // atomic loads/stores
                let loads: &[(fn(MemArg) -> I<'static>, VT, u32)] = &[
                    (I::I32AtomicLoad, VT::I32, 2),
                    (I::I64AtomicLoad, VT::I64, 3),
                    (I::I32AtomicLoad8U, VT::I32, 0),
                    (I::I32AtomicLoad16U, VT::I32, 1),
                    (I::I64AtomicLoad8U, VT::I64, 0),
                    (I::I64AtomicLoad16U, VT::I64, 1),
                    (I::I64AtomicLoad32U, VT::I64, 2),
                ];
                let stores: &[(fn(MemArg) -> I<'static>, VT, u32)] = &[
                    (I::I32AtomicStore, VT::I32, 2),
                    (I::I64AtomicStore, VT::I64, 3),
                    (I::I32AtomicStore8, VT::I32, 0),
                    (I::I32AtomicStore16, VT::I32, 1),
                    (I::I64AtomicStore8, VT::I64, 0),
                    (I::I64AtomicStore16, VT::I64, 1),
                    (I::I64AtomicStore32, VT::I64, 2),
                ];
                if rng.bool() {
                    let (c, t, al) = *rng.pick(loads);
                    self.addr(rng, mem);
                    let ma = self.atomic_memarg(rng, mem, al);
                    self.out.push(c(ma));
                    self.consume(rng, t);
                } else {
                    let (c, t, al) = *rng.pick(stores);
                    self.addr(rng, mem);
                    self.push_val(rng, t);
                    let ma = self.atomic_memarg(rng, mem, al);
                    self.out.push(c(ma));
                }
            }
            6 => {
                // rmw + cmpxchg
                let rmw: &[(fn(MemArg) -> I<'static>, VT, u32)] = &[
                    (I::I32AtomicRmwAdd, VT::I32, 2),
                    (I::I64AtomicRmwAdd, VT::I64, 3),
                    (I::I32AtomicRmw8AddU, VT::I32, 0),
                    (I::I32AtomicRmw16AddU, VT::I32, 1),
                    (I::I64AtomicRmw8AddU, VT::I64, 0),
                    (I::I64AtomicRmw16AddU, VT::I64, 1),
                    (I::I64AtomicRmw32AddU, VT::I64, 2),
                    (I::I32AtomicRmwSub, VT::I32, 2),
                    (I::I64AtomicRmwSub, VT::I64, 3),
                    (I::I32AtomicRmw8SubU, VT::I32, 0),
                    (I::I64AtomicRmw32SubU, VT::I64, 2),
                    (I::I32AtomicRmwAnd, VT::I32, 2),
                    (I::I64AtomicRmwAnd, VT::I64, 3),
                    (I::I32AtomicRmw16AndU, VT::I32, 1),
                    (I::I32AtomicRmwOr, VT::I32, 2),
                    (I::I64AtomicRmwOr, VT::I64, 3),
                    (I::I64AtomicRmw8OrU, VT::I64, 0),
                    (I::I32AtomicRmwXor, VT::I32, 2),
                    (I::I64AtomicRmwXor, VT::I64, 3),
                    (I::I64AtomicRmw16XorU, VT::I64, 1),
                    (I::I32AtomicRmwXchg, VT::I32, 2),
                    (I::I64AtomicRmwXchg, VT::I64, 3),
                    (I::I32AtomicRmw8XchgU, VT::I32, 0),
                ];
                let cmp: &[(fn(MemArg) -> I<'static>, VT, u32)] = &[
                    (I::I32AtomicRmwCmpxchg, VT::I32, 2),
                    (I::I64AtomicRmwCmpxchg, VT::I64, 3),
                    (I::I32AtomicRmw8CmpxchgU, VT::I32, 0),
                    (I::I32AtomicRmw16CmpxchgU, VT::I32, 1),
                    (I::I64AtomicRmw8CmpxchgU, VT::I64, 0),
                    (I::I64AtomicRmw16CmpxchgU, VT::I64, 1),
                    (I::I64AtomicRmw32CmpxchgU, VT::I64, 2),
                ];
                if rng.chance(2, 3) {
                    let (c, t, al) = *rng.pick(rmw);
                    self.addr(rng, mem);
                    self.push_val(rng, t);
                    let ma = self.atomic_memarg(rng, mem, al);
                    self.out.push(c(ma));
                    self.consume(rng, t);
                } else {
                    let (c, t, al) = *rng.pick(cmp);
                    self.addr(rng, mem);
                    self.push_val(rng, t);
                    self.push_val(rng, t);
                    let ma = self.atomic_memarg(rng, mem, al);
                    self.out.push(c(ma));
                    self.consume(rng, t);
                }
            }
            7 => {
                // wait / notify / fence
                match rng.below(4) {
                    0 => {
                        self.addr(rng, mem);
                        self.push_val(rng, VT::I32);
                        let ma = self.atomic_memarg(rng, mem, 2);
                        self.out.push(I::MemoryAtomicNotify(ma));
                        self.consume(rng, VT::I32);
                    }
                    1 => {
                        self.addr(rng, mem);
                        self.push_val(rng, VT::I32);
                        self.push_val(rng, VT::I64);
                        let ma = self.atomic_memarg(rng, mem, 2);
                        self.out.push(I::MemoryAtomicWait32(ma));
                        self.consume(rng, VT::I32);
                    }
                    2 => {
                        self.addr(rng, mem);
                        self.push_val(rng, VT::I64);
                        self.push_val(rng, VT::I64);
                        let ma = self.atomic_memarg(rng, mem, 3);
                        self.out.push(I::MemoryAtomicWait64(ma));
                        self.consume(rng, VT::I32);
                    }
                    _ => self.out.push(I::AtomicFence),
                }
            }
            _ => {
                // bulk: fill / copy / init / data.drop
                match rng.below(4) {
                    0 => {
                        let t = self.addr_ty(mem);
                        self.addr(rng, mem);
                        self.push_val(rng, VT::I32);
                        self.push_val(rng, t);
                        self.out.push(I::MemoryFill(mem));
                    }
                    1 => {
                        let src = rng.below(nm as usize) as u32;
                        let (td, ts) = (self.addr_ty(mem), self.addr_ty(src));
                        self.push_val(rng, td);
                        self.push_val(rng, ts);
                        // length type is the smaller of the two index types
                        let tl = if td == VT::I64 && ts == VT::I64 { VT::I64 } else { VT::I32 };
                        self.push_val(rng, tl);
                        self.out.push(I::MemoryCopy { src_mem: src, dst_mem: mem });
                    }
                    2 if self.g.n_datas > 0 => {
                        let d = rng.below(self.g.n_datas as usize) as u32;
                        self.addr(rng, mem);
                        self.push_val(rng, VT::I32);
                        self.push_val(rng, VT::I32);
                        self.out.push(I::MemoryInit { mem, data_index: d });
                    }
                    _ if self.g.n_datas > 0 => {
                        self.out.push(I::DataDrop(rng.below(self.g.n_datas as usize) as u32));
                    }
                    _ => self.out.push(I::Nop),
                }
            }
        }
    }

    fn num_stmt(&mut self, rng: &mut Rng) {
        use VT::*;
        type Row = (I<'static>, &'static [VT], VT);
        let base: &[Row] = &[
            (I::I32Add, &[I32, I32], I32),
            (I::I32Sub, &[I32, I32], I32),
            (I::I32Mul, &[I32, I32], I32),
            (I::I32And, &[I32, I32], I32),
            (I::I32Xor, &[I32, I32], I32),
            (I::I32Shl, &[I32, I32], I32),
            (I::I32Rotl, &[I32, I32], I32),
            (I::I32Eqz, &[I32], I32),
            (I::I32LtS, &[I32, I32], I32),
            (I::I32Clz, &[I32], I32),
            (I::I32Popcnt, &[I32], I32),
            (I::I64Add, &[I64, I64], I64),
            (I::I64Mul, &[I64, I64], I64),
            (I::I64Or, &[I64, I64], I64),
            (I::I64ShrU, &[I64, I64], I64),
            (I::I64Eq, &[I64, I64], I32),
            (I::I64Ctz, &[I64], I64),
            (I::F32Add, &[F32, F32], F32),
            (I::F32Mul, &[F32, F32], F32),
            (I::F32Neg, &[F32], F32),
            (I::F32Lt, &[F32, F32], I32),
            (I::F32Sqrt, &[F32], F32),
            (I::F64Add, &[F64, F64], F64),
            (I::F64Div, &[F64, F64], F64),
            (I::F64Abs, &[F64], F64),
            (I::F64Ge, &[F64, F64], I32),
            (I::F64Copysign, &[F64, F64], F64),
            (I::I32WrapI64, &[I64], I32),
            (I::I64ExtendI32S, &[I32], I64),
            (I::I64ExtendI32U, &[I32], I64),
            (I::F32ConvertI32S, &[I32], F32),
            (I::F64ConvertI64U, &[I64], F64),
            (I::F32DemoteF64, &[F64], F32),
            (I::F64PromoteF32, &[F32], F64),
            (I::I32ReinterpretF32, &[F32], I32),
            (I::I64ReinterpretF64, &[F64], I64),
            (I::F32ReinterpretI32, &[I32], F32),
            (I::F64ReinterpretI64, &[I64], F64),
            (I::I32Extend8S, &[I32], I32),
            (I::I64Extend32S, &[I64], I64),
            (I::I32TruncSatF32S, &[F32], I32),
            (I::I64TruncSatF64U, &[F64], I64),
            (I::I32DivS, &[I32, I32], I32),
            (I::I64RemU, &[I64, I64], I64),
            (I::I32TruncF64S, &[F64], I32),
        ];
        let simd: &[Row] = &[
            (I::I8x16Splat, &[I32], V128),
            (I::I64x2Splat, &[I64], V128),
            (I::F32x4Splat, &[F32], V128),
            (I::I32x4Add, &[V128, V128], V128),
            (I::I16x8Mul, &[V128, V128], V128),
            (I::F64x2Sqrt, &[V128], V128),
            (I::V128Not, &[V128], V128),
            (I::V128And, &[V128, V128], V128),
            (I::V128Bitselect, &[V128, V128, V128], V128),
            (I::V128AnyTrue, &[V128], I32),
            (I::I8x16Swizzle, &[V128, V128], V128),
            (I::I32x4ExtractLane(3), &[V128], I32),
            (I::F64x2ReplaceLane(1), &[V128, F64], V128),
            (I::I8x16Shuffle([0, 17, 2, 19, 4, 21, 6, 23, 8, 25, 10, 27, 12, 29, 14, 31]), &[V128, V128], V128),
            (I::I32x4TruncSatF32x4S, &[V128], V128),
            (I::I16x8ExtMulLowI8x16S, &[V128, V128], V128),
            (I::I8x16Bitmask, &[V128], I32),
            (I::I64x2ExtendLowI32x4U, &[V128], V128),
        ];
        let row: &Row = if has(self.flags, F_SIMD) && rng.chance(1, 3) { rng.pick(simd) } else { rng.pick(base) };
        for t in row.1 {
            self.push_val(rng, *t);
        }
        self.out.push(row.0.clone());
        self.consume(rng, row.2);
    }

    fn call_stmt(&mut self, rng: &mut Rng) {
        let n = self.g.n_funcs();
        if n == 0 {
            return;
        }
        let f = rng.below(n as usize) as u32;
        let (p, r) = self.g.sig(f);
        let (p, r) = (p.to_vec(), r.to_vec());
        let k = rng.below(6);
        if k == 0 && has(self.flags, F_REF) {
            self.out.push(I::RefFunc(f));
            self.out.push(I::Drop);
            return;
        }
        if k == 1 && !self.g.tables.is_empty() {
            // call_indirect through a funcref table
            let tabs: Vec<u32> =
                self.g.tables.iter().enumerate().filter(|(_, t)| t.elem == VT::FuncRef).map(|(i, _)| i as u32).collect();
            if let Some(t) = tabs.first() {
                for t in &p {
                    self.push_val(rng, *t);
                }
                self.out.push(I::I32Const(0));
                self.out.push(I::CallIndirect { type_index: self.g.func_types[f as usize], table_index: *t });
                for t in r.iter().rev() {
                    self.consume(rng, *t);
                }
                return;
            }
        }
        for t in &p {
            self.push_val(rng, *t);
        }
        self.out.push(I::Call(f));
        for t in r.iter().rev() {
            self.consume(rng, *t);
        }
    }

    fn table_stmt(&mut self, rng: &mut Rng) {
        if self.g.tables.is_empty() || !has(self.flags, F_REF) {
            self.out.push(I::Nop);
            return;
        }
        let t = rng.below(self.g.tables.len()) as u32;
        let et = self.g.tables[t as usize].elem;
        match rng.below(7) {
            0 => {
                self.out.push(I::I32Const(0));
                self.out.push(I::TableGet(t));
                self.out.push(I::Drop);
            }
            1 => {
                self.out.push(I::I32Const(0));
                self.out.push(const_of(rng, et));
                self.out.push(I::TableSet(t));
            }
            2 => {
                self.out.push(I::TableSize(t));
                self.out.push(I::Drop);
            }
            3 => {
                self.out.push(const_of(rng, et));
                self.out.push(I::I32Const(0));
                self.out.push(I::TableGrow(t));
                self.out.push(I::Drop);
            }
            4 if has(self.flags, F_BULK) => {
                self.out.push(I::I32Const(0));
                self.out.push(const_of(rng, et));
                self.out.push(I::I32Const(0));
                self.out.push(I::TableFill(t));
            }
            5 if has(self.flags, F_BULK) => {
                self.out.push(I::I32Const(0));
                self.out.push(I::I32Const(0));
                self.out.push(I::I32Const(0));
                self.out.push(I::TableCopy { src_table: t, dst_table: t });
            }
            _ => {
                if has(self.flags, F_BULK) && self.g.n_elems > 0 {
                    self.out.push(I::ElemDrop(rng.below(self.g.n_elems as usize) as u32));
                } else {
                    self.out.push(I::Nop);
                }
            }
        }
    }

    fn ref_stmt(&mut self, rng: &mut Rng) {
        if !has(self.flags, F_REF) {
            self.out.push(I::Nop);
            return;
        }
        let gc = has(self.flags, F_GC);
        match rng.below(if gc { 10 } else { 3 }) {
            0 => {
                self.out.push(I::RefNull(VT::FuncRef.heap().unwrap()));
                self.out.push(I::RefIsNull);
                self.consume(rng, VT::I32);
            }
            1 => {
                self.push_val(rng, VT::ExternRef);
                self.out.push(I::RefIsNull);
                self.out.push(I::Drop);
            }
            2 => {
                self.push_val(rng, VT::FuncRef);
                self.consume(rng, VT::FuncRef);
            }
            3 if !self.struct_types.is_empty() => {
                let t = *rng.pick(&self.struct_types);
                self.out.push(I::StructNewDefault(t));
                if let TyInfo::Struct(fields) = &self.g.types[t as usize] {
                    if !fields.is_empty() && fields[0].0.is_num() && fields[0].0 != VT::I32 {
                        self.out.push(I::StructGet { struct_type_index: t, field_index: 0 });
                    }
                }
                self.out.push(I::Drop);
            }
            4 if !self.array_types.is_empty() => {
                let t = *rng.pick(&self.array_types);
                self.out.push(I::I32Const(rng.below(5) as i32));
                self.out.push(I::ArrayNewDefault(t));
                self.out.push(I::ArrayLen);
                self.out.push(I::Drop);
            }
            5 => {
                self.push_val(rng, VT::I32);
                self.out.push(I::RefI31);
                self.out.push(if rng.bool() { I::I31GetS } else { I::I31GetU });
                self.consume(rng, VT::I32);
            }
            6 => {
                self.push_val(rng, VT::AnyRef);
                self.out.push(I::RefTestNullable(VT::EqRef.heap().unwrap()));
                self.out.push(I::Drop);
            }
            7 => {
                self.out.push(I::RefNull(VT::AnyRef.heap().unwrap()));
                self.out.push(I::RefCastNullable(VT::StructRef.heap().unwrap()));
                self.out.push(I::Drop);
            }
            8 => {
                self.push_val(rng, VT::ExternRef);
                self.out.push(I::AnyConvertExtern);
                self.out.push(I::ExternConvertAny);
                self.out.push(I::Drop);
            }
            _ => {
                self.push_val(rng, VT::EqRef);
                self.push_val(rng, VT::EqRef);
                self.out.push(I::RefEq);
                self.out.push(I::Drop);
            }
        }
    }

    fn block_type(&mut self, rng: &mut Rng) -> (BlockType, Vec<VT>, Vec<VT>) {
        // (block type, params, results)
        let c = rng.below(6);
        if c < 3 {
            (BlockType::Empty, vec![], vec![])
        } else if c < 5 {
            let t = *rng.pick(&[VT::I32, VT::I64, VT::F32, VT::F64]);
            (BlockType::Result(t.enc()), vec![], vec![t])
        } else if has(self.flags, F_MV) {
            // a function type with numeric params/results
            let cands: Vec<u32> = self
                .g
                .types
                .iter()
                .enumerate()
                .filter(|(_, t)| match t {
                    TyInfo::Func(p, r) => p.len() <= 2 && r.len() <= 2 && p.iter().chain(r.iter()).all(|v| v.is_num()),
                    _ => false,
                })
                .map(|(i, _)| i as u32)
                .collect();
            if cands.is_empty() {
                return (BlockType::Empty, vec![], vec![]);
            }
            let t = *rng.pick(&cands);
            if let TyInfo::Func(p, r) = &self.g.types[t as usize] {
                (BlockType::FunctionType(t), p.clone(), r.clone())
            } else {
                unreachable!()
            }
        } else {
            (BlockType::Empty, vec![], vec![])
        }
    }

    fn ctrl_stmt(&mut self, rng: &mut Rng, budget: usize) {
        if self.depth >= 4 {
            self.out.push(I::Nop);
            return;
        }
        let (bt, params, results) = self.block_type(rng);
        let kind = rng.below(3); // 0 block 1 loop 2 if
        for p in &params {
            self.push_val(rng, *p);
        }
        match kind {
            0 => self.out.push(I::Block(bt)),
            1 => self.out.push(I::Loop(bt)),
            _ => {
                self.push_val(rng, VT::I32);
                self.out.push(I::If(bt));
            }
        }
        self.depth += 1;
        self.frames.push(Frame { label: if kind == 1 { params.clone() } else { results.clone() }, is_loop: kind == 1 });
        // params are on the stack inside: consume them first
        for p in params.iter().rev() {
            self.consume(rng, *p);
        }
        let arms = if kind == 2 && (rng.bool() || !results.is_empty()) { 2 } else { 1 };
        for arm in 0..arms {
            if arm == 1 {
                self.out.push(I::Else);
                for p in params.iter().rev() {
                    self.consume(rng, *p);
                }
            }
            let n = rng.below(budget.min(4) + 1);
            for _ in 0..n {
                self.stmt(rng, budget / 2);
            }
            // maybe a branch
            let mut diverged = false;
            if rng.chance(1, 3) {
                diverged = self.branch_stmt(rng);
            }
            if !diverged {
                for r in &results {
                    self.push_val(rng, *r);
                }
            }
        }
        // an `if` with params != results and no else is invalid; we only drop else when results empty & params empty
        if kind == 2 && arms == 1 && !params.is_empty() {
            // need else to balance: params are consumed in then-arm, else arm must too
            self.out.push(I::Else);
            for p in params.iter().rev() {
                self.consume(rng, *p);
            }
            for r in &results {
                self.push_val(rng, *r);
            }
        }
        self.out.push(I::End);
        self.frames.pop();
        self.depth -= 1;
        for r in results.iter().rev() {
            self.consume(rng, *r);
        }
    }

    /// emits a branch; returns true when the rest of the block is unreachable
    fn branch_stmt(&mut self, rng: &mut Rng) -> bool {
        let nframes = self.frames.len();
        // depth 0 = innermost; depth == nframes => function label
        let d = rng.below(nframes + 1);
        let label: Vec<VT> =
            if d == nframes { self.results.clone() } else { self.frames[nframes - 1 - d].label.clone() };
        let _ = self.frames.get(0).map(|f| f.is_loop);
        match rng.below(6) {
            0 => {
                for t in &label {
                    self.push_val(rng, *t);
                }
                self.out.push(I::Br(d as u32));
                true
            }
            1 => {
                for t in &label {
                    self.push_val(rng, *t);
                }
                self.push_val(rng, VT::I32);
                self.out.push(I::BrIf(d as u32));
                for t in label.iter().rev() {
                    self.consume(rng, *t);
                }
                false
            }
            2 => {
                // br_table over labels with identical types: only use this label (several times) + default
                for t in &label {
                    self.push_val(rng, *t);
                }
                self.push_val(rng, VT::I32);
                // other targets must have the same label types; collect them
                let mut targets = vec![d as u32];
                for dd in 0..=nframes {
                    let l2: Vec<VT> =
                        if dd == nframes { self.results.clone() } else { self.frames[nframes - 1 - dd].label.clone() };
                    if l2 == label && rng.bool() {
                        targets.push(dd as u32);
                    }
                }
                self.out.push(I::BrTable(Cow::Owned(targets), d as u32));
                true
            }
            3 => {
                for t in &self.results.clone() {
                    self.push_val(rng, *t);
                }
                self.out.push(I::Return);
                true
            }
            4 if has(self.flags, F_TAIL) => {
                // return_call to a function with identical results
                let cands: Vec<u32> =
                    (0..self.g.n_funcs()).filter(|f| self.g.sig(*f).1 == self.results.as_slice()).collect();
                if cands.is_empty() {
                    self.out.push(I::Unreachable);
                    return true;
                }
                let f = *rng.pick(&cands);
                let p = self.g.sig(f).0.to_vec();
                for t in &p {
                    self.push_val(rng, *t);
                }
                self.out.push(I::ReturnCall(f));
                true
            }
            5 if has(self.flags, F_EXN) && self.g.n_tags > 0 => {
                // tags have signature (i32)->() or ()->() : tag k has k%2 params
                let tag = rng.below(self.g.n_tags as usize) as u32;
                if tag % 2 == 1 {
                    self.push_val(rng, VT::I32);
                }
                self.out.push(I::Throw(tag));
                true
            }
            _ => {
                self.out.push(I::Unreachable);
                true
            }
        }
    }

    fn exn_stmt(&mut self, rng: &mut Rng) {
        if !has(self.flags, F_EXN) || self.g.n_tags == 0 || self.depth >= 4 {
            self.out.push(I::Nop);
            return;
        }
        // block $h (result exnref)? keep it simple: try_table with catch_all to an enclosing empty-label block
        // block            ;; label L (empty)
        //   try_table (catch_all 0) ... end
        // end
        self.out.push(I::Block(BlockType::Empty));
        self.frames.push(Frame { label: vec![], is_loop: false });
        self.depth += 1;
        let tag = rng.below(self.g.n_tags as usize) as u32;
        let catches: Vec<we::Catch> = if tag % 2 == 0 && rng.bool() {
            vec![we::Catch::One { tag, label: 0 }, we::Catch::All { label: 0 }]
        } else {
            vec![we::Catch::All { label: 0 }]
        };
        self.out.push(I::TryTable(BlockType::Empty, Cow::Owned(catches)));
        self.frames.push(Frame { label: vec![], is_loop: false });
        self.depth += 1;
        let n = rng.below(3);
        for _ in 0..n {
            self.stmt(rng, 1);
        }
        self.out.push(I::End);
        self.frames.pop();
        self.depth -= 1;
        self.out.push(I::End);
        self.frames.pop();
        self.depth -= 1;
    }

    fn stmt(&mut self, rng: &mut Rng, budget: usize) {
        match rng.below(16) {
            0 | 1 | 2 => self.num_stmt(rng),
            3 | 4 | 5 => self.mem_stmt(rng),
            6 | 7 => self.call_stmt(rng),
            8 => {
                // global get/set
                if !self.g.globals.is_empty() {
                    let gi = rng.below(self.g.globals.len());
                    let t = self.g.globals[gi].ty;
                    if self.g.globals[gi].mutable && rng.bool() {
                        self.push_val(rng, t);
                        self.out.push(I::GlobalSet(gi as u32));
                    } else {
                        self.out.push(I::GlobalGet(gi as u32));
                        self.consume(rng, t);
                    }
                } else {
                    self.out.push(I::Nop);
                }
            }
            9 => self.table_stmt(rng),
            10 => self.ref_stmt(rng),
            11 | 12 | 13 => {
                if budget > 0 {
                    self.ctrl_stmt(rng, budget)
                } else {
                    self.num_stmt(rng)
                }
            }
            14 => self.exn_stmt(rng),
            _ => {
                // select / drop / nop
                match rng.below(3) {
                    0 => {
                        let t = *rng.pick(&[VT::I32, VT::I64, VT::F32, VT::F64]);
                        self.push_val(rng, t);
                        self.push_val(rng, t);
                        self.push_val(rng, VT::I32);
                        if has(self.flags, F_REF) && rng.bool() {
                            self.out.push(I::TypedSelect(t.enc()));
                        } else {
                            self.out.push(I::Select);
                        }
                        self.consume(rng, t);
                    }
                    _ => self.out.push(I::Nop),
                }
            }
        }
    }
}

fn uid_const(t: VT, uid: u32) -> ConstExpr {
    match t {
        VT::I32 => ConstExpr::i32_const((0x1000_0000 + uid) as i32),
        VT::I64 => ConstExpr::i64_const(0x1000_0000_0000 + uid as i64),
        VT::F32 => ConstExpr::f32_const(we::Ieee32::from(f32::from_bits(0x7fc0_0000 | uid))), // NaN with payload = uid
        VT::F64 => ConstExpr::f64_const(we::Ieee64::from(f64::from_bits(0x7ff8_0000_0000_0000 | uid as u64))),
        VT::V128 => ConstExpr::v128_const(((0xfeed_u128 << 100) | uid as u128) as i128),
        other => ConstExpr::ref_null(other.heap().unwrap()),
    }
}

pub fn generate(rng: &mut Rng, prof: Profile, cfg: &GenCfg) -> GenModule {
    let flags = prof.flags;
    let mut g = GenModule { profile: prof.name, flags, ..Default::default() };
    let mut module = Module::new();
    let mut uid = 1u32;
    let mut customs_left = if cfg.customs { rng.range(1, 4) } else { 0 };
    let mut custom_uid = 0u32;
    let maybe_custom = |module: &mut Module, rng: &mut Rng, left: &mut usize, cu: &mut u32| {
        if *left > 0 && rng.chance(1, 4) {
            *left -= 1;
            *cu += 1;
            let names = ["producers_x", "target_features", "linking", ".debug_info", "sourceMappingURL", "", "ünï", "x"];
            let name = format!("{}{}", rng.pick(&names), if rng.bool() { format!("{}", *cu) } else { String::new() });
            let n = rng.below(12);
            let mut data = rng.bytes(n);
            data.extend_from_slice(&cu.to_le_bytes());
            module.section(&CustomSection { name: Cow::Owned(name), data: Cow::Owned(data) });
        }
    };

    // ---------------- value types available
    let mut vts = vec![VT::I32, VT::I64, VT::F32, VT::F64];
    if has(flags, F_SIMD) {
        vts.push(VT::V128);
    }
    if has(flags, F_REF) {
        vts.push(VT::FuncRef);
        vts.push(VT::ExternRef);
    }
    if has(flags, F_GC) {
        vts.extend([VT::AnyRef, VT::EqRef, VT::I31Ref, VT::StructRef, VT::ArrayRef]);
    }
    if has(flags, F_EXN) && !cfg.avoid_exnref {
        vts.push(VT::ExnRef);
    }

    // ---------------- types
    let mut types_sec = TypeSection::new();
    // type 0: () -> ()
    types_sec.ty().function([], []);
    g.types.push(TyInfo::Func(vec![], vec![]));
    // type 1: (i32) -> ()   (tags with a payload)
    types_sec.ty().function([ValType::I32], []);
    g.types.push(TyInfo::Func(vec![VT::I32], vec![]));
    let mut struct_types = vec![];
    let mut array_types = vec![];
    let n_types = rng.range(1, cfg.max_types.max(1));
    for _ in 0..n_types {
        let k = rng.below(10);
        if has(flags, F_GC) && k < 3 {
            // struct or array (possibly in a rec group / with subtype)
            let idx = g.types.len() as u32;
            if rng.bool() {
                let nf = rng.below(4);
                let fields: Vec<(VT, bool)> =
                    (0..nf).map(|_| (*rng.pick(&[VT::I32, VT::I64, VT::F32, VT::F64, VT::AnyRef, VT::FuncRef]), rng.bool())).collect();
                let st = we::SubType {
                    is_final: rng.bool(),
                    supertype_idx: None,
                    composite_type: we::CompositeType {
                        inner: we::CompositeInnerType::Struct(we::StructType {
                            fields: fields
                                .iter()
                                .map(|(t, m)| we::FieldType {
                                    element_type: if *t == VT::I32 && rng.chance(1, 3) {
                                        if rng.bool() {
                                            we::StorageType::I8
                                        } else {
                                            we::StorageType::I16
                                        }
                                    } else {
                                        we::StorageType::Val(t.enc())
                                    },
                                    mutable: *m,
                                })
                                .collect(),
                        }),
                        shared: false,
                    },
                };
                if rng.chance(1, 3) {
                    // explicit rec group with a second type referring back
                    let other = we::SubType {
                        is_final: true,
                        supertype_idx: None,
                        composite_type: we::CompositeType {
                            inner: we::CompositeInnerType::Array(we::ArrayType(we::FieldType {
                                element_type: we::StorageType::Val(VT::RefNull(idx).enc()),
                                mutable: true,
                            })),
                            shared: false,
                        },
                    };
                    types_sec.ty().rec(vec![st, other]);
                    g.types.push(TyInfo::Struct(fields));
                    struct_types.push(idx);
                    g.types.push(TyInfo::Array(VT::RefNull(idx), true));
                    array_types.push(idx + 1);
                } else {
                    types_sec.ty().subtype(&st);
                    g.types.push(TyInfo::Struct(fields.clone()));
                    struct_types.push(idx);
                    if !st.is_final && rng.bool() {
                        // a subtype (adds one field)
                        let mut f2 = fields.clone();
                        f2.push((VT::I64, false));
                        let sub = we::SubType {
                            is_final: true,
                            supertype_idx: Some(idx),
                            composite_type: we::CompositeType {
                                inner: we::CompositeInnerType::Struct(we::StructType {
                                    fields: match &st.composite_type.inner {
                                        we::CompositeInnerType::Struct(s) => {
                                            let mut v = s.fields.to_vec();
                                            v.push(we::FieldType { element_type: we::StorageType::Val(ValType::I64), mutable: false });
                                            v.into_boxed_slice()
                                        }
                                        _ => unreachable!(),
                                    },
                                }),
                                shared: false,
                            },
                        };
                        types_sec.ty().subtype(&sub);
                        g.types.push(TyInfo::Struct(f2));
                        struct_types.push(idx + 1);
                    }
                }
            } else {
                let t = *rng.pick(&[VT::I32, VT::I64, VT::F64, VT::AnyRef]);
                let m = rng.bool();
                types_sec.ty().array(&we::StorageType::Val(t.enc()), m);
                g.types.push(TyInfo::Array(t, m));
                array_types.push(idx);
            }
        } else {
            let np = rng.below(4);
            let nr = if has(flags, F_MV) { rng.below(4) } else { rng.below(2) };
            let p: Vec<VT> = (0..np).map(|_| *rng.pick(&vts)).collect();
            let r: Vec<VT> = (0..nr).map(|_| *rng.pick(&vts)).collect();
            types_sec.ty().function(p.iter().map(|v| v.enc()), r.iter().map(|v| v.enc()));
            g.types.push(TyInfo::Func(p, r));
        }
    }
    // deliberately add a duplicate function type sometimes (types_map de-dup in wirm)
    if rng.chance(1, 4) {
        types_sec.ty().function([ValType::I32], []);
        g.types.push(TyInfo::Func(vec![VT::I32], vec![]));
    }
    maybe_custom(&mut module, rng, &mut customs_left, &mut custom_uid);
    module.section(&types_sec);
    g.section_kinds += 1;
    let func_type_ids: Vec<u32> =
        g.types.iter().enumerate().filter(|(_, t)| matches!(t, TyInfo::Func(..))).map(|(i, _)| i as u32).collect();

    // ---------------- imports
    let n_imp_funcs = rng.range(cfg.min_imp_funcs, cfg.max_imp_funcs.max(cfg.min_imp_funcs));
    let n_imp_globals = rng.range(cfg.min_imp_globals, cfg.max_imp_globals.max(cfg.min_imp_globals));
    let multimem = has(flags, F_MULTIMEM);
    let n_imp_mems = if multimem {
        rng.range(cfg.min_imp_mems, cfg.max_imp_mems.max(cfg.min_imp_mems))
    } else {
        rng.below(2).min(cfg.max_imp_mems)
    };
    let n_imp_tables = if cfg.max_tables > 0 && rng.chance(1, 3) { 1 } else { 0 };
    let n_imp_tags = if has(flags, F_EXN) && rng.bool() { 1 } else { 0 };
    #[derive(Clone, Copy)]
    enum Imp {
        F,
        G,
        M,
        T,
        Tag,
    }
    let off_ord: u32 = if cfg.off_global_any && n_imp_globals > 0 { rng.below(n_imp_globals) as u32 } else { 0 };
    let mut imps: Vec<Imp> = vec![];
    imps.extend(std::iter::repeat(Imp::F).take(n_imp_funcs));
    imps.extend(std::iter::repeat(Imp::G).take(n_imp_globals));
    imps.extend(std::iter::repeat(Imp::M).take(n_imp_mems));
    imps.extend(std::iter::repeat(Imp::T).take(n_imp_tables));
    imps.extend(std::iter::repeat(Imp::Tag).take(n_imp_tags));
    if cfg.mixed_imports {
        rng.shuffle(&mut imps);
    }
    let mut import_sec = ImportSection::new();
    let mem64 = has(flags, F_MEM64);
    let threads = has(flags, F_THREADS);
    let mut mem_uid = 1u64;
    let mut new_mem = |rng: &mut Rng, imported: bool, g: &mut GenModule| -> MemoryType {
        let m64 = mem64 && rng.bool();
        let shared = threads && rng.bool();
        let min = mem_uid;
        mem_uid += 1;
        let mt = MemoryType {
            minimum: min,
            maximum: if shared || rng.bool() { Some(min + rng.below(4) as u64 + 16) } else { None },
            memory64: m64,
            shared,
            page_size_log2: None,
        };
        g.mems.push(MemInfo { imported, mem64: m64, shared, min });
        mt
    };
    for (k, imp) in imps.iter().enumerate() {
        let name = format!("i{}", k);
        match imp {
            Imp::F => {
                let t = *rng.pick(&func_type_ids);
                import_sec.import("env", &name, EntityType::Function(t));
                g.func_types.push(t);
                g.func_uids.push(None);
                g.n_imp_funcs += 1;
            }
            Imp::G => {
                let t = *rng.pick(&[VT::I32, VT::I64, VT::F32, VT::F64]);
                // one imported global (the first one, unless cfg.off_global_any) is an immutable i32 (usable in offset expressions)
                let (t, m) = if g.n_imp_globals == off_ord { (VT::I32, false) } else { (t, rng.bool()) };
                if g.n_imp_globals == off_ord {
                    g.off_global = Some(off_ord);
                }
                import_sec.import("env", &name, EntityType::Global(GlobalType { val_type: t.enc(), mutable: m, shared: false }));
                g.globals.push(GlobalInfo { ty: t, mutable: m, imported: true });
                g.n_imp_globals += 1;
            }
            Imp::M => {
                let mt = new_mem(rng, true, &mut g);
                import_sec.import("env", &name, EntityType::Memory(mt));
                g.n_imp_mems += 1;
            }
            Imp::T => {
                let et = if has(flags, F_REF) && rng.bool() { VT::ExternRef } else { VT::FuncRef };
                import_sec.import(
                    "env",
                    &name,
                    EntityType::Table(TableType {
                        element_type: match et.enc() {
                            ValType::Ref(r) => r,
                            _ => unreachable!(),
                        },
                        table64: false,
                        minimum: 4,
                        maximum: None,
                        shared: false,
                    }),
                );
                g.tables.push(TableInfo { imported: true, elem: et, min: 4 });
            }
            Imp::Tag => {
                import_sec.import("env", &name, EntityType::Tag(TagType { kind: TagKind::Exception, func_type_idx: 0 }));
                g.n_tags += 1;
            }
        }
    }
    if !imps.is_empty() {
        maybe_custom(&mut module, rng, &mut customs_left, &mut custom_uid);
        module.section(&import_sec);
        g.section_kinds += 1;
    }

    // ---------------- functions (declarations)
    let n_funcs = rng.range(cfg.min_funcs, cfg.max_funcs.max(cfg.min_funcs));
    let mut func_sec = FunctionSection::new();
    for _ in 0..n_funcs {
        let t = *rng.pick(&func_type_ids);
        func_sec.function(t);
        g.func_types.push(t);
        g.func_uids.push(Some(uid));
        uid += 1;
    }
    // the start function (if any) must be ()->(): force the last local function to type 0
    let want_start = cfg.start && n_funcs > 0;
    if want_start {
        let last = g.func_types.len() - 1;
        g.func_types[last] = 0;
        // rebuild the section
        func_sec = FunctionSection::new();
        for t in &g.func_types[g.n_imp_funcs as usize..] {
            func_sec.function(*t);
        }
    }
    if n_funcs > 0 {
        module.section(&func_sec);
        g.section_kinds += 1;
    }

    // ---------------- tables
    let n_tables = if cfg.max_tables == 0 { 0 } else { rng.range(if n_imp_tables == 0 { 1 } else { 0 }, cfg.max_tables) };
    let n_tables = if has(flags, F_REF) { n_tables } else { n_tables.min(1 - n_imp_tables.min(1)) };
    let mut table_sec = TableSection::new();
    for _ in 0..n_tables {
        let et = if has(flags, F_REF) && rng.chance(1, 3) { VT::ExternRef } else { VT::FuncRef };
        let tt = TableType {
            element_type: match et.enc() {
                ValType::Ref(r) => r,
                _ => unreachable!(),
            },
            table64: false,
            minimum: 8,
            maximum: if rng.bool() { Some(32) } else { None },
            shared: false,
        };
        if has(flags, F_GC) && et == VT::FuncRef && rng.chance(1, 3) && !g.func_types.is_empty() {
            let f = rng.below(g.func_types.len()) as u32;
            table_sec.table_with_init(tt, &ConstExpr::ref_func(f));
        } else {
            table_sec.table(tt);
        }
        g.tables.push(TableInfo { imported: false, elem: et, min: 8 });
    }
    if n_tables > 0 {
        module.section(&table_sec);
        g.section_kinds += 1;
    }

    // ---------------- memories
    let n_mems = if multimem {
        rng.range(cfg.min_mems, cfg.max_mems.max(cfg.min_mems))
    } else if n_imp_mems > 0 {
        0
    } else {
        rng.below(2).max(cfg.min_mems.min(1))
    };
    let mut mem_sec = MemorySection::new();
    for _ in 0..n_mems {
        let mt = new_mem(rng, false, &mut g);
        mem_sec.memory(mt);
    }
    if n_mems > 0 {
        maybe_custom(&mut module, rng, &mut customs_left, &mut custom_uid);
        module.section(&mem_sec);
        g.section_kinds += 1;
    }

    // ---------------- tags
    if has(flags, F_EXN) {
        let n = rng.range(1, 3);
        let mut ts = TagSection::new();
        for _ in 0..n {
            // tag k: k%2==1 has an i32 payload
            let k = g.n_tags;
            ts.tag(TagType { kind: TagKind::Exception, func_type_idx: if k % 2 == 1 { 1 } else { 0 } });
            g.n_tags += 1;
        }
        module.section(&ts);
        g.section_kinds += 1;
    }

    // ---------------- globals
    let n_globals = rng.range(cfg.min_globals, cfg.max_globals.max(cfg.min_globals));
    let mut glob_sec = GlobalSection::new();
    let mut ref_global_kinds_used = 0;
    for _ in 0..n_globals {
        let mutable = rng.bool();
        let c = rng.below(10);
        if c == 0 && g.off_global.is_some() {
            // init = global.get of the imported immutable i32; made unique through a distinct type mutability pair is not
            // enough, so only one such global per (mutable) value
            if ref_global_kinds_used & (1 << (mutable as u32)) == 0 {
                ref_global_kinds_used |= 1 << (mutable as u32);
                glob_sec.global(GlobalType { val_type: ValType::I32, mutable, shared: false }, &ConstExpr::global_get(g.off_global.unwrap()));
                g.globals.push(GlobalInfo { ty: VT::I32, mutable, imported: false });
                continue;
            }
        }
        if c == 1 && has(flags, F_REF) && !g.func_types.is_empty() {
            // funcref global = ref.func f  (unique per f+mutability; keep one per mutability)
            if ref_global_kinds_used & (4 << (mutable as u32)) == 0 {
                ref_global_kinds_used |= 4 << (mutable as u32);
                let f = rng.below(g.func_types.len()) as u32;
                glob_sec.global(GlobalType { val_type: VT::FuncRef.enc(), mutable, shared: false }, &ConstExpr::ref_func(f));
                g.globals.push(GlobalInfo { ty: VT::FuncRef, mutable, imported: false });
                continue;
            }
        }
        if c == 2 && has(flags, F_REF) && ref_global_kinds_used & (16 << (mutable as u32)) == 0 {
            ref_global_kinds_used |= 16 << (mutable as u32);
            glob_sec.global(
                GlobalType { val_type: VT::ExternRef.enc(), mutable, shared: false },
                &ConstExpr::ref_null(VT::ExternRef.heap().unwrap()),
            );
            g.globals.push(GlobalInfo { ty: VT::ExternRef, mutable, imported: false });
            continue;
        }
        if c == 3 && has(flags, F_GC) && ref_global_kinds_used & (64 << (mutable as u32)) == 0 {
            ref_global_kinds_used |= 64 << (mutable as u32);
            // i31ref = (ref.i31 (i32.const uid))
            let mut bytes = vec![];
            use we::Encode;
            I::I32Const(uid as i32).encode(&mut bytes);
            I::RefI31.encode(&mut bytes);
            uid += 1;
            glob_sec.global(GlobalType { val_type: VT::I31Ref.enc(), mutable, shared: false }, &ConstExpr::raw(bytes));
            g.globals.push(GlobalInfo { ty: VT::I31Ref, mutable, imported: false });
            continue;
        }
        let mut tys = vec![VT::I32, VT::I64, VT::F32, VT::F64];
        if has(flags, F_SIMD) {
            tys.push(VT::V128);
        }
        let t = *rng.pick(&tys);
        glob_sec.global(GlobalType { val_type: t.enc(), mutable, shared: false }, &uid_const(t, uid));
        uid += 1;
        g.globals.push(GlobalInfo { ty: t, mutable, imported: false });
    }
    if n_globals > 0 {
        module.section(&glob_sec);
        g.section_kinds += 1;
    }

    // ---------------- exports
    let mut exp_sec = ExportSection::new();
    let mut n_exports = 0;
    {
        let nf = g.func_types.len();
        for f in 0..nf {
            if rng.chance(1, 2) || cfg.ref_heavy {
                exp_sec.export(&format!("f{}", f), ExportKind::Func, f as u32);
                n_exports += 1;
            }
        }
        for gi in 0..g.globals.len() {
            if rng.chance(1, 2) || cfg.ref_heavy {
                exp_sec.export(&format!("g{}", gi), ExportKind::Global, gi as u32);
                n_exports += 1;
            }
        }
        for mi in 0..g.mems.len() {
            if rng.chance(1, 2) || cfg.ref_heavy {
                exp_sec.export(&format!("m{}", mi), ExportKind::Memory, mi as u32);
                n_exports += 1;
            }
        }
        for ti in 0..g.tables.len() {
            if rng.chance(1, 3) {
                exp_sec.export(&format!("t{}", ti), ExportKind::Table, ti as u32);
                n_exports += 1;
            }
        }
        for ti in 0..g.n_tags {
            if rng.chance(1, 3) {
                exp_sec.export(&format!("tag{}", ti), ExportKind::Tag, ti);
                n_exports += 1;
            }
        }
    }
    if n_exports > 0 {
        maybe_custom(&mut module, rng, &mut customs_left, &mut custom_uid);
        module.section(&exp_sec);
        g.section_kinds += 1;
    }

    // ---------------- start
    if want_start {
        module.section(&StartSection { function_index: g.func_types.len() as u32 - 1 });
        g.has_start = true;
        g.section_kinds += 1;
    }

    // ---------------- elements
    let mut elem_sec = ElementSection::new();
    let nfuncs_total = g.func_types.len() as u32;
    let func_tables: Vec<u32> =
        g.tables.iter().enumerate().filter(|(_, t)| t.elem == VT::FuncRef).map(|(i, _)| i as u32).collect();
    let mut n_elems = 0;
    if nfuncs_total > 0 {
        let want = rng.range(if cfg.ref_heavy { 2 } else { 0 }, cfg.max_elems.max(2));
        for _ in 0..want {
            let len = rng.range(1, 4);
            let funcs: Vec<u32> = (0..len).map(|_| rng.below(nfuncs_total as usize) as u32).collect();
            let offset = if g.off_global.is_some() && rng.chance(1, 3) {
                ConstExpr::global_get(g.off_global.unwrap())
            } else {
                ConstExpr::i32_const(rng.below(3) as i32)
            };
            let exprs: Vec<ConstExpr> = funcs
                .iter()
                .map(|f| if rng.chance(1, 4) { ConstExpr::ref_null(VT::FuncRef.heap().unwrap()) } else { ConstExpr::ref_func(*f) })
                .collect();
            let fr = match VT::FuncRef.enc() {
                ValType::Ref(r) => r,
                _ => unreachable!(),
            };
            let kind = if has(flags, F_REF) || has(flags, F_BULK) { rng.below(8) } else { 0 };
            // GC / function-references profiles, 1 in 4 of the expression-form segments: the segment is declared with a concrete typed
            // function reference `(ref null $t)` and holds only functions of type $t (and null references of that type)
            if has(flags, F_GC) && kind >= 4 && rng.chance(1, 4) {
                let t = g.func_types[funcs[0] as usize];
                let same: Vec<u32> = (0..nfuncs_total).filter(|f| g.func_types[*f as usize] == t).collect();
                let heap = wasm_encoder::HeapType::Concrete(t);
                let rt = RefType { nullable: true, heap_type: heap };
                let texprs: Vec<ConstExpr> =
                    (0..rng.range(1, 4)).map(|_| if rng.chance(1, 4) { ConstExpr::ref_null(heap) } else { ConstExpr::ref_func(*rng.pick(&same)) }).collect();
                match kind {
                    4 | 6 if !func_tables.is_empty() => {
                        let tb = *rng.pick(&func_tables);
                        elem_sec.active(Some(tb), &offset, Elements::Expressions(rt, Cow::Owned(texprs)));
                    }
                    5 => {
                        elem_sec.passive(Elements::Expressions(rt, Cow::Owned(texprs)));
                    }
                    _ => {
                        elem_sec.declared(Elements::Expressions(rt, Cow::Owned(texprs)));
                    }
                }
                n_elems += 1;
                continue;
            }
            match kind {
                0 | 2 | 4 | 6 if func_tables.is_empty() => {
                    if has(flags, F_REF) || has(flags, F_BULK) {
                        elem_sec.passive(Elements::Functions(Cow::Owned(funcs)));
                    } else {
                        continue;
                    }
                }
                0 => {
                    if func_tables[0] == 0 {
                        elem_sec.active(None, &offset, Elements::Functions(Cow::Owned(funcs)));
                    } else {
                        elem_sec.active(Some(func_tables[0]), &offset, Elements::Functions(Cow::Owned(funcs)));
                    }
                }
                1 => {
                    elem_sec.passive(Elements::Functions(Cow::Owned(funcs)));
                }
                2 => {
                    elem_sec.active(Some(*rng.pick(&func_tables)), &offset, Elements::Functions(Cow::Owned(funcs)));
                }
                3 => {
                    elem_sec.declared(Elements::Functions(Cow::Owned(funcs)));
                }
                4 => {
                    if func_tables[0] == 0 {
                        elem_sec.active(None, &offset, Elements::Expressions(fr, Cow::Owned(exprs)));
                    } else {
                        elem_sec.active(Some(func_tables[0]), &offset, Elements::Expressions(fr, Cow::Owned(exprs)));
                    }
                }
                5 => {
                    elem_sec.passive(Elements::Expressions(fr, Cow::Owned(exprs)));
                }
                6 => {
                    elem_sec.active(Some(*rng.pick(&func_tables)), &offset, Elements::Expressions(fr, Cow::Owned(exprs)));
                }
                _ => {
                    elem_sec.declared(Elements::Expressions(fr, Cow::Owned(exprs)));
                }
            }
            n_elems += 1;
        }
        // declare every function so that ref.func in code validates
        if has(flags, F_REF) {
            elem_sec.declared(Elements::Functions(Cow::Owned((0..nfuncs_total).collect())));
            n_elems += 1;
        }
    }
    g.n_elems = n_elems;
    if n_elems > 0 {
        module.section(&elem_sec);
        g.section_kinds += 1;
    }

    // ---------------- data count (decide data first)
    let n_datas = if g.mems.is_empty() && !has(flags, F_BULK) { 0 } else { rng.range(if cfg.ref_heavy { 1 } else { 0 }, cfg.max_datas) };
    g.n_datas = n_datas as u32;
    if has(flags, F_BULK) && (n_datas > 0 || rng.bool()) {
        module.section(&DataCountSection { count: n_datas as u32 });
        g.section_kinds += 1;
    }

    // ---------------- code
    let mut code = CodeSection::new();
    for lf in 0..n_funcs {
        let fidx = g.n_imp_funcs + lf as u32;
        let (params, results) = {
            let (p, r) = g.sig(fidx);
            (p.to_vec(), r.to_vec())
        };
        // locals
        let nl = rng.below(6);
        let mut local_tys: Vec<VT> = vec![];
        for _ in 0..nl {
            let t = *rng.pick(&vts);
            local_tys.push(t);
        }
        if has(flags, F_GC) && !struct_types.is_empty() && rng.bool() {
            local_tys.push(VT::RefNull(*rng.pick(&struct_types)));
        }
        // group into runs
        let mut groups: Vec<(u32, ValType)> = vec![];
        for t in &local_tys {
            match groups.last_mut() {
                Some((n, lt)) if *lt == t.enc() && rng.chance(3, 4) => *n += 1,
                _ => groups.push((1, t.enc())),
            }
        }
        let mut func = Function::new(groups);
        let mut pl = params.clone();
        pl.extend(local_tys.iter().cloned());
        let mut cx = FnCtx {
            g: &g,
            flags,
            params_locals: pl,
            frames: vec![],
            results: results.clone(),
            out: vec![],
            depth: 0,
            this_func: fidx,
            func_type_void: Some(0),
            struct_types: struct_types.clone(),
            array_types: array_types.clone(),
        };
        let _ = (cx.this_func, cx.func_type_void);
        if !cfg.no_fingerprint {
            cx.out.push(I::I32Const((FP_BASE + g.func_uids[fidx as usize].unwrap()) as i32));
            cx.out.push(I::Drop);
        }
        let ns = rng.below(cfg.max_stmts + 1);
        for _ in 0..ns {
            cx.stmt(rng, 3);
        }
        if cfg.ref_heavy {
            // make sure each family of reference shows up
            cx.call_stmt(rng);
            cx.mem_stmt(rng);
        }
        for r in &results {
            cx.push_val(rng, *r);
        }
        cx.out.push(I::End);
        let body = std::mem::take(&mut cx.out);
        drop(cx);
        g.body_lens.push(body.len());
        for i in &body {
            func.instruction(i);
        }
        code.function(&func);
    }
    if n_funcs > 0 {
        maybe_custom(&mut module, rng, &mut customs_left, &mut custom_uid);
        module.section(&code);
        g.section_kinds += 1;
    }

    // ---------------- data
    if n_datas > 0 {
        let mut ds = DataSection::new();
        for k in 0..n_datas {
            let n = rng.below(10);
            let mut payload = rng.bytes(n);
            payload.extend_from_slice(&(0xD000_0000u32 + k as u32).to_le_bytes());
            let passive = g.mems.is_empty() || (has(flags, F_BULK) && rng.chance(1, 3));
            if passive {
                ds.passive(payload);
            } else {
                let mem = rng.below(g.mems.len()) as u32;
                let off = if g.mems[mem as usize].mem64 {
                    ConstExpr::i64_const(rng.below(64) as i64)
                } else if g.off_global.is_some() && rng.chance(1, 3) {
                    ConstExpr::global_get(g.off_global.unwrap())
                } else {
                    ConstExpr::i32_const(rng.below(64) as i32)
                };
                ds.active(mem, &off, payload);
            }
        }
        module.section(&ds);
        g.section_kinds += 1;
    }

    // ---------------- names
    if cfg.names {
        let mut ns = NameSection::new();
        if rng.bool() {
            ns.module(&format!("mod{}", rng.below(100)));
        }
        let mut fm = NameMap::new();
        for f in 0..g.func_types.len() as u32 {
            if rng.chance(3, 4) {
                fm.append(f, &format!("fn{}", f));
            }
        }
        ns.functions(&fm);
        let mut lm = IndirectNameMap::new();
        for lf in 0..n_funcs as u32 {
            let fidx = g.n_imp_funcs + lf;
            let np = g.sig(fidx).0.len() as u32;
            if np > 0 && rng.bool() {
                let mut m = NameMap::new();
                m.append(0, &format!("p0of{}", fidx));
                lm.append(fidx, &m);
            }
        }
        ns.locals(&lm);
        let mut tm = NameMap::new();
        for t in 0..g.types.len() as u32 {
            if rng.chance(1, 3) {
                tm.append(t, &format!("ty{}", t));
            }
        }
        ns.types(&tm);
        let mut tabm = NameMap::new();
        for t in 0..g.tables.len() as u32 {
            tabm.append(t, &format!("tab{}", t));
        }
        ns.tables(&tabm);
        let mut mm = NameMap::new();
        for t in 0..g.mems.len() as u32 {
            mm.append(t, &format!("mem{}", t));
        }
        ns.memories(&mm);
        let mut gm = NameMap::new();
        for t in 0..g.globals.len() as u32 {
            if rng.chance(3, 4) {
                gm.append(t, &format!("glob{}", t));
            }
        }
        ns.globals(&gm);
        let mut em = NameMap::new();
        for t in 0..g.n_elems {
            if rng.bool() {
                em.append(t, &format!("el{}", t));
            }
        }
        ns.elements(&em);
        let mut dm = NameMap::new();
        for t in 0..g.n_datas {
            if rng.bool() {
                dm.append(t, &format!("dat{}", t));
            }
        }
        ns.data(&dm);
        if has(flags, F_EXN) {
            let mut tg = NameMap::new();
            for t in 0..g.n_tags {
                tg.append(t, &format!("tg{}", t));
            }
            ns.tag(&tg);
        }
        if has(flags, F_GC) && !struct_types.is_empty() {
            let mut fm = IndirectNameMap::new();
            let st = struct_types[0];
            if let TyInfo::Struct(f) = &g.types[st as usize] {
                if !f.is_empty() {
                    let mut m = NameMap::new();
                    m.append(0, "fld0");
                    fm.append(st, &m);
                }
            }
            ns.fields(&fm);
        }
        module.section(&ns);
    }
    while customs_left > 0 {
        let before = customs_left;
        maybe_custom(&mut module, rng, &mut customs_left, &mut custom_uid);
        if customs_left == before && rng.chance(1, 8) {
            break;
        }
    }
    g.next_uid = uid;
    g.bytes = module.finish();
    g
}

/// Generate until the validator accepts (returns number of rejects, which are generator bugs).
pub fn generate_valid(rng: &mut Rng, prof: Profile, cfg: &GenCfg) -> Result<(GenModule, u32), String> {
    let mut rejects = 0;
    let mut last = String::new();
    for _ in 0..6 {
        let g = generate(rng, prof, cfg);
        match crate::sym::validate(&g.bytes) {
            Ok(()) => return Ok((g, rejects)),
            Err(e) => {
                rejects += 1;
                last = e;
            }
        }
    }
    Err(last)
}

// ------------------------------------------------------------------------------------
// ground truth recovered from bytes (explicit witnesses, fixture bases)

fn vt_of(v: wasmparser::ValType) -> VT {
    use wasmparser::{AbstractHeapType as A, HeapType as H, ValType as W};
    match v {
        W::I32 => VT::I32,
        W::I64 => VT::I64,
        W::F32 => VT::F32,
        W::F64 => VT::F64,
        W::V128 => VT::V128,
        W::Ref(r) => match r.heap_type() {
            H::Abstract { ty, .. } => match ty {
                A::Func => VT::FuncRef,
                A::Extern => VT::ExternRef,
                A::Any => VT::AnyRef,
                A::Eq => VT::EqRef,
                A::I31 => VT::I31Ref,
                A::Struct => VT::StructRef,
                A::Array => VT::ArrayRef,
                A::Exn => VT::ExnRef,
                _ => VT::AnyRef,
            },
            H::Concrete(i) => VT::RefNull(i.as_module_index().unwrap_or(0)),
        },
    }
}

/// Rebuild the generator's bookkeeping for an arbitrary valid module.
pub fn info_from_bytes(bytes: &[u8]) -> Result<GenModule, String> {
    use wasmparser::{CompositeInnerType, Parser, Payload, TypeRef};
    let mut g = GenModule { bytes: bytes.to_vec(), profile: "from-bytes", flags: u32::MAX, ..Default::default() };
    let mut max_fp = 0u32;
    for p in Parser::new(0).parse_all(bytes) {
        match p.map_err(|e| e.to_string())? {
            Payload::TypeSection(r) => {
                for grp in r {
                    for st in grp.map_err(|e| e.to_string())?.types() {
                        g.types.push(match &st.composite_type.inner {
                            CompositeInnerType::Func(f) => {
                                TyInfo::Func(f.params().iter().map(|v| vt_of(*v)).collect(), f.results().iter().map(|v| vt_of(*v)).collect())
                            }
                            CompositeInnerType::Struct(s) => TyInfo::Struct(
                                s.fields
                                    .iter()
                                    .map(|f| {
                                        (
                                            match f.element_type {
                                                wasmparser::StorageType::Val(v) => vt_of(v),
                                                _ => VT::I32,
                                            },
                                            f.mutable,
                                        )
                                    })
                                    .collect(),
                            ),
                            CompositeInnerType::Array(a) => TyInfo::Array(
                                match a.0.element_type {
                                    wasmparser::StorageType::Val(v) => vt_of(v),
                                    _ => VT::I32,
                                },
                                a.0.mutable,
                            ),
                            CompositeInnerType::Cont(_) => TyInfo::Func(vec![], vec![]),
                        });
                    }
                }
            }
            Payload::ImportSection(r) => {
                for i in r {
                    match i.map_err(|e| e.to_string())?.ty {
                        TypeRef::Func(t) => {
                            g.func_types.push(t);
                            g.func_uids.push(None);
                            g.n_imp_funcs += 1;
                        }
                        TypeRef::Global(gt) => {
                            g.globals.push(GlobalInfo { ty: vt_of(gt.content_type), mutable: gt.mutable, imported: true });
                            g.n_imp_globals += 1;
                        }
                        TypeRef::Memory(m) => {
                            g.mems.push(MemInfo { imported: true, mem64: m.memory64, shared: m.shared, min: m.initial });
                            g.n_imp_mems += 1;
                        }
                        TypeRef::Table(t) => g.tables.push(TableInfo { imported: true, elem: vt_of(wasmparser::ValType::Ref(t.element_type)), min: t.initial }),
                        TypeRef::Tag(_) => g.n_tags += 1,
                    }
                }
            }
            Payload::FunctionSection(r) => {
                for f in r {
                    g.func_types.push(f.map_err(|e| e.to_string())?);
                    g.func_uids.push(None);
                }
            }
            Payload::TableSection(r) => {
                for t in r {
                    let t = t.map_err(|e| e.to_string())?;
                    g.tables.push(TableInfo { imported: false, elem: vt_of(wasmparser::ValType::Ref(t.ty.element_type)), min: t.ty.initial });
                }
            }
            Payload::MemorySection(r) => {
                for m in r {
                    let m = m.map_err(|e| e.to_string())?;
                    g.mems.push(MemInfo { imported: false, mem64: m.memory64, shared: m.shared, min: m.initial });
                }
            }
            Payload::GlobalSection(r) => {
                for gl in r {
                    let gl = gl.map_err(|e| e.to_string())?;
                    g.globals.push(GlobalInfo { ty: vt_of(gl.ty.content_type), mutable: gl.ty.mutable, imported: false });
                }
            }
            Payload::TagSection(r) => g.n_tags += r.count(),
            Payload::ElementSection(r) => g.n_elems = r.count(),
            Payload::DataSection(r) => g.n_datas = r.count(),
            Payload::StartSection { .. } => g.has_start = true,
            Payload::CodeSectionEntry(b) => {
                let mut n = 0;
                let mut first: Option<i32> = None;
                for (k, op) in b.get_operators_reader().map_err(|e| e.to_string())?.into_iter().enumerate() {
                    let op = op.map_err(|e| e.to_string())?;
                    if k == 0 {
                        if let wasmparser::Operator::I32Const { value } = op {
                            first = Some(value);
                        }
                    }
                    n += 1;
                }
                g.body_lens.push(n);
                if let Some(v) = first {
                    if (v as u32) >= FP_BASE {
                        max_fp = max_fp.max(v as u32 - FP_BASE);
                    }
                }
            }
            _ => {}
        }
    }
    g.next_uid = max_fp + 1000;
    Ok(g)
}
