#!/bin/bash
# Builds the harness offline from files on disk only.
set -e
cd "$(dirname "$0")"
mkdir -p out evidence
export CARGO_NET_OFFLINE=true
cd harness
RUSTFLAGS="--cfg wirm_verif" cargo build --offline --profile verif 2>&1 | tail -3
