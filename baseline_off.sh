#!/bin/bash
# Runs the repository's own test suite with the verification guard OFF and
# compares the set of passing tests with the stable baseline (111 tests).
# Exit 0 iff every test in BASELINE.stable_pass passes.
set -u
cd /repo || exit 2
unset RUSTFLAGS
export CARGO_NET_OFFLINE=true
LOG=$(mktemp)
run_once() {
cargo nextest run --workspace --no-fail-fast --offline --test-threads 8 >"$LOG" 2>&1
python3 - "$LOG" <<'PY'
import json,re,sys
log=open(sys.argv[1]).read()
passed=set()
for m in re.finditer(r'^\s+PASS \[[^\]]*\]\s+(?:\(\s*\d+/\d+\)\s+)?(\S+)\s+(\S+)\s*$', log, re.M):
    passed.add(m.group(1)+"::"+m.group(2))
base=json.load(open('/root/.vp/BASELINE.json'))['stable_pass']
missing=[t for t in base if t not in passed]
print("baseline tests passing: %d/%d (total passing %d)"%(len(base)-len(missing),len(base),len(passed)))
if missing:
    print("MISSING:"); [print("  ",t) for t in missing]
    sys.exit(1)
PY
}
# the round-trip tests write shared files under output/ and can collide when run in
# parallel; one retry separates such a collision from a real regression
run_once; rc=$?
if [ $rc -ne 0 ]; then echo "retrying once"; run_once; rc=$?; fi
rm -f "$LOG"
exit $rc
